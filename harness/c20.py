"""C20 — cached transformer decoding equals recomputation, per line and per batch (DESIGN §5-C20, PARTIAL).

Proof side (Lean, Model/KVCache): for EVERY history of batches (any sizes, source lengths, numbers of steps) every cache
slot read at step t of batch n was written during batch n at a step <= t (never garbage, never a previous batch);
the view/transpose index algebra is lane preserving; the decoding loop terminates within W/4 + 2 iterations; the
post-processed transcription contains no boundary / ignore symbol.
Tie to the code, without source hooks: the REAL Decoder.infer / transcribe_batch are driven with random-weight models
over batch histories; (i) the cache tensors are snapshotted around every step to obtain the real write set and
re-allocations, compared with the model's; (ii) every slot the model calls invalid is POISONED with NaN before each
step and the output must be NaN-free and bit-identical to the unpoisoned run: read-set within valid-set on the real code.
Functional model (Lean, Model/Decoder): for EVERY choice of the layer functions, cached step-by-step decoding from ANY
stale state = step-by-step recomputation = the full masked pass (theorems cached_eq_full, uncached_eq_full, full_prefix,
history_independent).  Tie: the driver prints the model's computation as TERMS over free function symbols (kv, sa, pm, ca, add,
n1..n3, ff per layer); the harness EVALUATES these terms with the real modules' weights and kernels and compares the values
with what the real Decoder.infer (cached, uncached, after a history) and the real masked TransformerDecoder.forward return.
NOT decided by proof: that float32 kernels evaluate the same term to the same number on both routes (checked, 1e-4).
"""
import copy
import math

import numpy as np

from . import common


def build_model(rng, torch, transformer, max_seq_len=64):
    dim = rng.choice([16, 32])
    heads = rng.choice([1, 2, 4])
    layers = rng.choice([1, 2, 3])
    nclass = rng.randrange(5, 9)          # incl. boundary and ignore symbols

    class Frontend(torch.nn.Module):      # stands in for the VGG front-end (which downloads weights)
        def __init__(self):
            super().__init__()
            self.conv = torch.nn.Conv2d(3, dim, kernel_size=(16, 8), stride=(16, 8))

        def forward(self, x):
            y = self.conv(x)              # N, dim, 1, W/8
            return y.squeeze(2)
    torch.manual_seed(rng.randrange(2 ** 31))
    enc = transformer.LineSelfAttentionEncoder(dropout=0.0, max_seq_len=200, dim_model=dim, dim_ff=2 * dim, nb_heads=heads, nb_layers=1)
    net = transformer.TransformerOCR(Frontend(), enc, num_classes=nclass, dropout=0.0, nb_layers=layers, dim_model=dim, dim_ff=2 * dim,
                                     max_seq_len=max_seq_len, nb_heads=heads)
    # random weights with some spread so that arg-max decisions are not all ties
    with torch.no_grad():
        for p in net.parameters():
            p.copy_(torch.randn_like(p) * 0.5)
        # some models like the ignore symbol (class nclass-1) or the boundary symbol: lines that emit "ignore" before they finish
        r = rng.random()
        if r < 0.35:
            net.dec_out_proj.bias[nclass - 1] += rng.choice([1.0, 2.0, 3.0])
        elif r < 0.5:
            net.dec_out_proj.bias[nclass - 2] += rng.choice([0.5, 1.0])
    net.eval()
    return net, dict(dim=dim, heads=heads, layers=layers, classes=nclass)


def greedy_reference(torch, net, eng, x1):
    """Greedy decoding of ONE line image with the masked (teacher-forced) forward pass only. Returns (transcription, clear)."""
    W = x1.shape[3]
    X = torch.from_numpy(x1).float() / 255.0
    prefix = [eng.sentence_boundary_ind]
    emitted, clear = [], True
    while True:
        lg = net.forward(X, torch.tensor([prefix], dtype=torch.long))[-1, 0]       # scores of the last position
        top = torch.topk(lg, 2).values
        if float(top[0] - top[1]) < 1e-3:
            clear = False
        sym = int(torch.argmax(lg))
        if sym == eng.sentence_boundary_ind:
            break
        if len(prefix) > W // 4:
            break
        emitted.append(sym)
        prefix.append(sym)
    greedy_reference.last_emitted = emitted
    return [s for s in emitted if s != eng.ignore_ind], clear


def make_engine(net, nclass):
    import torch
    from pero_ocr.ocr_engine.transformer_ocr_engine import TransformerEngineLineOCR
    eng = object.__new__(TransformerEngineLineOCR)
    eng.net = net
    eng.device = torch.device('cpu')
    eng.characters = [chr(97 + i) for i in range(nclass - 2)] + ['​', '']
    eng.sentence_boundary_ind = nclass - 2
    eng.ignore_ind = nclass - 1
    return eng


def run(ctx):
    import torch
    from pero_ocr.ocr_engine import transformer
    rng = ctx.rng
    ctx.rule = ('random-weight models (1..3 decoder layers, 1..4 heads, width 16/32); histories of 2..5 batches of 1..4 equal-width line '
                'images, equal and different batch sizes and widths (stale caches); lines finishing at different steps and lines hitting '
                'the length cap W//4. non-trivial = history with >= 2 batches of the same batch size, or a batch of >= 2 lines')
    ctx.assumptions += ['PARTIAL: numerical equality of float32 computations is checked differentially (1e-4), not proved',
                        'PyTorch kernels act lane-wise along the batch dimension (linear, bmm, softmax, LayerNorm)']
    reqs, impl = [], []
    dreqs, dimpl = [], []
    n = 16 if ctx.quick() else 40
    for it in range(n):
        net, cfg = build_model(rng, torch, transformer)
        eng = make_engine(net, cfg['classes'])
        hist = []
        for b in range(rng.randrange(2, 6)):
            B = rng.choice([1, 2, 2, 3, 4])
            W = rng.choice([32, 48, 64, 96])
            hist.append(np.random.RandomState(rng.randrange(2 ** 31)).randint(0, 256, size=(B, 3, 16, W)).astype(np.uint8))
        inp = dict(model=cfg, batches=[[int(x.shape[0]), int(x.shape[3])] for x in hist])
        ctx.evaluations += 1
        try:
            with torch.no_grad():
                ref = []
                trace = []
                for bi, x in enumerate(hist):
                    rec = Recorder(net, transformer, poison=False)
                    with rec:
                        labels, logits = eng.transcribe_batch(x, is_cached=True)
                    ref.append(([l.tolist() for l in labels], logits.clone()))
                    trace.append(rec.steps)
                    # termination and clean output
                    if logits.shape[1] > x.shape[3] // 4 + 2:
                        ctx.violation('loop-too-long', 'decoding did not stop within W//4 + 2 iterations', inp, int(logits.shape[1]))
                    for l in labels:
                        if eng.sentence_boundary_ind in l.tolist() or eng.ignore_ind in l.tolist():
                            ctx.violation('dirty-output', 'transcription contains a boundary / ignore symbol', inp, l.tolist())
                # (a) each batch on a FRESH copy of the model: independence of previous batches
                fresh_net = copy.deepcopy(net)
                for bi, x in enumerate(hist):
                    fnet = copy.deepcopy(fresh_net)
                    feng = make_engine(fnet, cfg['classes'])
                    lab, lg = feng.transcribe_batch(x, is_cached=True)
                    if [l.tolist() for l in lab] != ref[bi][0] or lg.shape != ref[bi][1].shape or (lg - ref[bi][1]).abs().max() > 1e-4:
                        ctx.violation('history-dependent', 'a batch decoded after other batches differs from decoding it with a fresh model', inp, bi)
                    # (b) cached = uncached (recompute every step from scratch)
                    unet = copy.deepcopy(fresh_net)
                    ueng = make_engine(unet, cfg['classes'])
                    lab_u, lg_u = ueng.transcribe_batch(x, is_cached=False)
                    if [l.tolist() for l in lab_u] != ref[bi][0] or lg_u.shape != ref[bi][1].shape or (lg_u - ref[bi][1]).abs().max() > 1e-4:
                        ctx.violation('cached-vs-uncached', 'cached decoding differs from recomputing every step', inp, bi)
                    # (c) teacher-forced masked forward over the emitted symbols
                    T = ref[bi][1].shape[1]
                    samples = ref[bi][1].argmax(dim=-1)                      # B x T emitted symbols
                    prefix = torch.cat([torch.full((x.shape[0], 1), eng.sentence_boundary_ind, dtype=torch.long), samples[:, :T - 1]], dim=1)
                    tf = fnet.forward(torch.from_numpy(x).float() / 255.0, prefix).permute(1, 0, 2)
                    if (tf - ref[bi][1]).abs().max() > 1e-4:
                        ctx.violation('teacher-forced', 'step-by-step scores differ from the full masked forward pass', inp, float((tf - ref[bi][1]).abs().max()))
                    # (g) the transcription is what GREEDY decoding with the full masked pass gives for the line on its own: symbols up to
                    # the first boundary (or the length cap W//4), ignore symbols skipped - whatever the other lines of the batch do
                    for k in range(x.shape[0]):
                        exp_line, clear = greedy_reference(torch, fnet, eng, x[k:k + 1])
                        if clear and ref[bi][0][k] != exp_line:
                            ctx.violation('greedy-reference', "a line's transcription is not greedy decoding of that line with the masked forward pass "
                                          '(up to its first boundary / the length cap, ignore symbols skipped)', inp, [bi, k, ref[bi][0][k]], exp_line)
                        elif not clear:
                            ctx.count('greedy_reference_near_ties_skipped')
                    # (d) per-line independence inside the batch
                    if x.shape[0] > 1:
                        k = rng.randrange(x.shape[0])
                        lnet = copy.deepcopy(fresh_net)
                        leng = make_engine(lnet, cfg['classes'])
                        lab1, lg1 = leng.transcribe_batch(x[k:k + 1], is_cached=True)
                        Tk = lg1.shape[1]
                        if lab1[0].tolist() != ref[bi][0][k] or (lg1[0] - ref[bi][1][k, :Tk]).abs().max() > 1e-4:
                            ctx.violation('line-depends-on-batch', "a line's result depends on the other lines of its batch", inp, [bi, k])
                    # every line also decoded ALONE (a batch of one) against the greedy reference
                    for k in range(x.shape[0]):
                        aeng = make_engine(copy.deepcopy(fresh_net), cfg['classes'])
                        lab_a, lg_a = aeng.transcribe_batch(x[k:k + 1], is_cached=True)
                        emitted = lg_a[0].argmax(dim=-1).tolist()
                        if eng.ignore_ind in emitted and (eng.sentence_boundary_ind not in emitted or emitted.index(eng.ignore_ind) < emitted.index(eng.sentence_boundary_ind)):
                            ctx.count('lines_emitting_ignore_before_boundary')
                        exp_line, clear = greedy_reference(torch, fnet, eng, x[k:k + 1])
                        if clear and lab_a[0].tolist() != exp_line:
                            ctx.violation('greedy-reference:alone', "a line decoded alone is not greedy decoding of that line with the masked forward pass "
                                          '(up to its first boundary / the length cap, ignore symbols skipped)', inp, [bi, k, lab_a[0].tolist()], exp_line)
                # (h) more single lines for this model (cheap): lines that emit the ignore symbol and then go on with real symbols
                for _ in range(12 if ctx.quick() else 30):
                    xs = np.random.RandomState(rng.randrange(2 ** 31)).randint(0, 256, size=(1, 3, 16, rng.choice([32, 48, 64, 96]))).astype(np.uint8)
                    seng = make_engine(copy.deepcopy(fresh_net), cfg['classes'])
                    lab_s, _ = seng.transcribe_batch(xs, is_cached=True)
                    exp_line, clear = greedy_reference(torch, fresh_net, eng, xs)
                    em = greedy_reference.last_emitted
                    if eng.ignore_ind in em and any(s != eng.ignore_ind for s in em[em.index(eng.ignore_ind):]):
                        ctx.count('single_lines:ignore_then_symbol')
                    ctx.evaluations += 1
                    if clear and lab_s[0].tolist() != exp_line:
                        ctx.violation('greedy-reference:alone', "a line decoded alone is not greedy decoding of that line with the masked forward pass "
                                      '(up to its first boundary / the length cap, ignore symbols skipped)',
                                      dict(model=cfg, width=int(xs.shape[3]), image_seeded=True), lab_s[0].tolist(), exp_line)
                        break
                # (i) the engine's run_ocr (what process_lines calls): batches of DECREASING width through one engine object = each batch
                # through a fresh engine (run_ocr centres narrow batches on a 1088 px canvas)
                try:
                    if it % 3 != 0:
                        raise StopIteration
                    # a model of its own: the 1088 px canvas gives 136 encoder frames and a length cap of 272 symbols, so the caches must be
                    # longer than the usual 64, and a bias towards the boundary symbol lets the lines finish soon
                    rnet, rcfg = build_model(rng, torch, transformer, max_seq_len=300)
                    rnet.dec_out_proj.bias[rcfg['classes'] - 2] += 4.0
                    reng = make_engine(copy.deepcopy(rnet), rcfg['classes'])
                    ws = sorted([rng.choice([32, 48, 64, 96, 128]) for _ in range(3)], reverse=True)
                    nb = rng.choice([1, 2])
                    for w in ws:
                        xb = np.random.RandomState(rng.randrange(2 ** 31)).randint(0, 256, size=(nb, 16, w, 3)).astype(np.uint8)
                        dec_a, lg_a = reng.run_ocr(xb.copy())
                        dec_b, lg_b = make_engine(copy.deepcopy(rnet), rcfg['classes']).run_ocr(xb.copy())
                        ctx.evaluations += 1
                        if list(dec_a) != list(dec_b) or np.asarray(lg_a).shape != np.asarray(lg_b).shape or np.abs(np.asarray(lg_a) - np.asarray(lg_b)).max(initial=0) > 1e-4:
                            ctx.violation('history-dependent:run_ocr', "a batch recognised by an engine that has recognised wider batches before differs from the same batch on a fresh engine",
                                          dict(model=rcfg, widths=ws, batch=nb, at_width=w), list(dec_a), list(dec_b))
                            break
                    ctx.count('run_ocr_sequences')
                except StopIteration:
                    pass
                except AttributeError as e:
                    ctx.count('run_ocr_standin_unusable')
                # (e) NaN poisoning of every slot the model calls invalid: read-set within valid-set
                pnet = copy.deepcopy(fresh_net)
                peng = make_engine(pnet, cfg['classes'])
                for bi, x in enumerate(hist):
                    rec = Recorder(pnet, transformer, poison=True)
                    with rec:
                        lab, lg = peng.transcribe_batch(x, is_cached=True)
                    if torch.isnan(lg).any():
                        ctx.violation('reads-invalid-slot', 'decoding reads a cache slot that was not written in this batch at an earlier step (NaN poisoning)', inp, bi)
                    elif not torch.equal(lg, ref[bi][1]):
                        ctx.violation('poison-changes-result', 'poisoning invalid cache slots changed the result', inp, bi)
                # (f) dataflow: forced symbols through every real route, to be compared with the value of the model's terms
                xb = hist[-1]
                xd = np.random.RandomState(rng.randrange(2 ** 31)).randint(0, 256, size=(xb.shape[0], 3, 16, rng.choice([32, 48, 64]))).astype(np.uint8)
                dreq, dinp, dobs = dataflow_case(ctx, rng, torch, net, cfg, eng, xd, fresh_net)
                dreqs.append(dreq)
                dimpl.append((dinp, dobs))
        except Exception as e:
            ctx.violation('raises:' + type(e).__name__, 'transformer decoding raised %r' % (e,), inp)
            continue
        if len(hist) >= 2:
            ctx.nontriv(inp)
        ctx.sample(dict(inp, steps=[len(t) for t in trace]), limit=3)
        # model request: the history with (B, S, steps); S = encoder length
        S_of = lambda x: x.shape[3] // 8
        reqs.append(dict(p='C20', op='history', max_len=64, batches=[[int(x.shape[0]), int(S_of(x)), len(tr)] for x, tr in zip(hist, trace)]))
        impl.append((inp, trace))
    # postprocess
    from pero_ocr.ocr_engine.transformer_ocr_engine import TransformerEngineLineOCR
    import torch as _t
    for _ in range(150 if ctx.quick() else 1500):
        eos, ign = 5, 6
        line = [rng.randrange(0, 7) for _ in range(rng.randrange(0, 10))]
        out = TransformerEngineLineOCR.postprocess_decoded(None, _t.tensor([line], dtype=_t.long), ign, eos)[0].tolist() if line else []
        # oracle (independent of the model): no boundary / ignore symbol survives; the result is the emitted line up to its
        # first boundary without the ignore symbols; the line's result does not depend on the other lines of its batch
        cut = line[:line.index(eos)] if eos in line else line
        exp = [x for x in cut if x != ign]
        pinp = dict(line=line, eos=eos, ign=ign)
        if eos in out or ign in out:
            ctx.violation('postprocess:symbols', 'transcription contains a boundary or ignore symbol', pinp, out)
        elif out != exp:
            ctx.violation('postprocess:content', 'transcription is not the emitted line up to its first boundary, less ignore symbols', pinp, out, exp)
        if line:
            other = [rng.randrange(0, 7) for _ in line]
            both = TransformerEngineLineOCR.postprocess_decoded(None, _t.tensor([line, other], dtype=_t.long), ign, eos)
            if both[0].tolist() != out:
                ctx.violation('postprocess:batch-dependent', "a line's transcription depends on the other lines of its batch",
                              dict(pinp, other=other), both[0].tolist(), out)
        reqs.append(dict(p='C20', op='postprocess', eos=eos, ign=ign, line=line))
        impl.append((dict(line=line), out))
        ctx.evaluations += 1
    if ctx.driver_ok:
        rep = common.Driver(ctx).batch(reqs)
        for r, (inp, got), q in zip(rep, impl, reqs):
            m = r.get('ok')
            if m is None:
                ctx.disagree('C20 model error', inp, None, r)
                continue
            if q['op'] == 'postprocess':
                if m != got:
                    ctx.disagree('C20 postprocess differs', inp, got, m)
                else:
                    ctx.traces_validated += 1
                continue
            # model: every read fresh; write-sets / re-allocations as observed
            if not all(s['fresh'] for s in m):
                ctx.disagree('C20 model predicts a stale read', inp, None, [s for s in m if not s['fresh']][:2])
                continue
            flat = [(bi, st) for bi, tr in enumerate(got) for st in tr]
            if len(flat) != len(m):
                ctx.disagree('C20 number of steps differs', inp, len(flat), len(m))
                continue
            bad = None
            for (bi, st), ms in zip(flat, m):
                # observed: which sequence slots of each layer's self-attention cache / memory changed in this step, re-allocations
                if ms['batch'] != bi or ms['step'] != st['seq_len']:
                    bad = 'step numbering'
                if any(w != [st['seq_len'] - 1] for w in st['mem_written']):
                    bad = 'memory_tgt: written slots %r, model writes slot %d' % (st['mem_written'], st['seq_len'] - 1)
                if any(w != [st['seq_len'] - 1] for w in st['self_written'] if w is not None):
                    bad = 'self-attention cache: written slots %r' % (st['self_written'],)
                if any(r != (st['seq_len'] == 1) for r in st['self_realloc']):
                    bad = 're-allocation of the self-attention cache at seq_len=%d: %r' % (st['seq_len'], st['self_realloc'])
            if bad:
                ctx.disagree('C20 cache protocol differs: ' + bad, inp, None, None)
            else:
                ctx.traces_validated += 1
        with torch.no_grad():
            scripted_loop(ctx, rng, torch)
            for r, (dinp, dobs) in zip(common.Driver(ctx).batch(dreqs), dimpl):
                dataflow_compare(ctx, r, dinp, dobs)
                ctx.evaluations += 1
    else:
        ctx.notes.append('driver unavailable: correspondence skipped, oracle only')


class TermEval:
    """Evaluates the terms printed by the Lean model (Dec.Term) with the weights and kernels of a real TransformerOCR decoder."""

    def __init__(self, net, x_emb, enc):
        import torch
        import torch.nn.functional as F
        self.torch, self.F = torch, F
        self.dec = net.trans_decoder
        self.x, self.enc = x_emb, enc
        self.table = {}
        self.nodes = []
        self.val = {}

    def intern(self, node):
        if len(node) == 2:
            key = ('var', node[0], node[1])
        else:
            key = (node[0], node[1]) + tuple(self.intern(a) for a in node[2])
        i = self.table.get(key)
        if i is None:
            i = len(self.nodes)
            self.table[key] = i
            self.nodes.append(key)
        return i

    def attend(self, mha, q_in, kv):
        """q_in: (B, E); kv: (S, B, 2E) projected keys and values"""
        torch, F = self.torch, self.F
        E = q_in.shape[-1]
        H = mha.num_heads
        D = E // H
        B = q_in.shape[0]
        q = F.linear(q_in, mha.in_proj_weight[:E], mha.in_proj_bias[:E]) * (float(D) ** -0.5)
        k, v = kv[..., :E], kv[..., E:]
        q = q.reshape(1, B * H, D).transpose(0, 1)
        k = k.reshape(-1, B * H, D).transpose(0, 1)
        v = v.reshape(-1, B * H, D).transpose(0, 1)
        w = torch.softmax(torch.bmm(q, k.transpose(1, 2)), dim=-1)
        o = torch.bmm(w, v).transpose(0, 1).reshape(1, B, E)[0]
        return F.linear(o, mha.out_proj.weight, mha.out_proj.bias)

    def value(self, i):
        if i in self.val:
            return self.val[i]
        torch, F = self.torch, self.F
        key = self.nodes[i]
        if key[0] == 'var':
            if key[1] == 'x':
                r = self.x[key[2]]
            elif key[1] == 'mem' and key[2] == 0:
                r = self.enc
            else:
                raise KeyError('the model reads %s %d' % (key[1], key[2]))
        else:
            f, l = key[0], key[1]
            layer = self.dec.layers[l]
            a = [self.value(j) for j in key[2:]]
            E = self.x.shape[-1]
            if f == 'kv':
                sa = layer.self_attn
                r = F.linear(a[0], sa.in_proj_weight[E:], sa.in_proj_bias[E:])
            elif f == 'sa':
                r = self.attend(layer.self_attn, a[0], torch.stack(a[1:]))
            elif f == 'pm':
                ca = layer.multihead_attn
                r = F.linear(a[0], ca.in_proj_weight[E:], ca.in_proj_bias[E:])
            elif f == 'ca':
                r = self.attend(layer.multihead_attn, a[0], a[1])
            elif f == 'add':
                r = a[0] + a[1]
            elif f == 'n1':
                r = layer.norm1(a[0])
            elif f == 'n2':
                r = layer.norm2(a[0])
            elif f == 'n3':
                r = layer.norm3(a[0])
            elif f == 'ff':
                r = layer.linear2(layer.activation(layer.linear1(a[0])))
            else:
                raise KeyError('unknown symbol ' + f)
        self.val[i] = r
        return r


def dataflow_case(ctx, rng, torch, net, cfg, eng, x, fresh_net):
    """Real decoder routes on one batch with a FORCED symbol sequence; returns (request, observation)."""
    B = x.shape[0]
    T = rng.randrange(2, 6)
    nclass = cfg['classes']
    # fed symbols: boundary first, then arbitrary symbols incl. the boundary and the ignore symbol in the middle
    toks = torch.tensor([[eng.sentence_boundary_ind] + [rng.randrange(nclass) for _ in range(T - 1)] for _ in range(B)], dtype=torch.long)
    obs = {}
    lines = torch.from_numpy(x).float() / 255.0
    enc = net.encode(lines)
    x_emb = net.pos_encoder(net.dec_embeder(toks.permute(1, 0)))
    obs['x'], obs['enc'] = x_emb, enc
    # (1) cached, on the object with its HISTORY (net has decoded other batches before)
    obs['cached_hist'] = [net.trans_decoder.infer(x_emb[:t + 1], enc, is_cached=True).clone() for t in range(T)]
    # (2) cached and uncached on fresh copies
    n1 = copy.deepcopy(fresh_net)
    obs['cached'] = [n1.trans_decoder.infer(x_emb[:t + 1], enc, is_cached=True).clone() for t in range(T)]
    n2 = copy.deepcopy(fresh_net)
    obs['uncached'] = [n2.trans_decoder.infer(x_emb[:t + 1], enc, is_cached=False).clone() for t in range(T)]
    # (3) the full masked pass
    n3 = copy.deepcopy(fresh_net)
    full = n3.trans_decoder(x_emb, enc, tgt_mask=n3.get_mask(T))
    obs['full'] = [full[t] for t in range(T)]
    obs['net'] = fresh_net
    req = dict(p='C20', op='decoder', layers=cfg['layers'], steps=T, max_len=T + 2)
    inp = dict(model=cfg, batch=[int(B), int(x.shape[3])], fed=toks.tolist())
    return req, inp, obs


def dataflow_compare(ctx, reply, inp, obs):
    import torch
    m = reply.get('ok')
    if m is None:
        ctx.disagree('C20 decoder model error', inp, None, reply)
        return
    full = m['full']
    for route in ('cached', 'uncached', 'after_history'):
        if m[route] != full:
            ctx.disagree('C20 model: %s run is not the masked pass (theorem instance fails?)' % route, inp, None, None)
            return
    ev = TermEval(obs['net'], obs['x'], obs['enc'])
    try:
        vals = [ev.value(ev.intern(t)) for t in full]
    except KeyError as e:
        ctx.disagree('C20 decoder terms: %s' % e, inp, None, None)
        return
    ctx.count('dataflow_term_nodes', len(ev.nodes))
    worst = {}
    for route in ('cached_hist', 'cached', 'uncached', 'full'):
        d = max(float((a - b).abs().max() / (1.0 + b.abs().max())) for a, b in zip(obs[route], vals))
        if not (d <= 1e-4):
            worst[route] = d
    if worst:
        # model and implementation compute different values: judge the real code directly (the property's own statement)
        pairs = [('cached', 'uncached', 'cached-vs-uncached', 'cached decoding differs from recomputing every step (forced symbols)'),
                 ('cached', 'full', 'teacher-forced', 'step-by-step scores differ from the full masked forward pass (forced symbols)'),
                 ('cached_hist', 'cached', 'history-dependent', 'decoding after other batches differs from decoding with a fresh model (forced symbols)')]
        found = False
        for a, b, key, what in pairs:
            d = max(float((p - q).abs().max() / (1.0 + q.abs().max())) for p, q in zip(obs[a], obs[b]))
            if not (d <= 1e-4):
                ctx.violation(key, what, inp, d)
                found = True
        if not found:
            ctx.disagree('C20 decoder: value of the model term differs from every real route', inp, worst, None)
    else:
        ctx.traces_validated += 1


class ScriptNet:
    """A scripted stand-in for TransformerOCR inside the REAL TransformerEngineLineOCR.transcribe_batch: line b emits
    script[b][step] at step `step` (the boundary symbol once its script is used up).  Only the greedy loop, the alive mask,
    the length cap and postprocess_decoded are exercised - exactly what Model/KVCache.transcribeLoop / postprocess describe."""

    def __init__(self, torch, script, nclass, eos):
        self.torch, self.script, self.nclass, self.eos = torch, script, nclass, eos
        outer = self

        class Dec:
            def infer(self, tgt, enc, is_cached=False):
                out = torch.zeros((tgt.shape[1], 4))
                out[:, 0] = float(tgt.shape[0] - 1)
                return out
        self.trans_decoder = Dec()

    def encode(self, lines):
        return self.torch.zeros((3, lines.shape[0], 4))

    def dec_embeder(self, idx):
        return self.torch.zeros((idx.shape[0], 4))

    def pos_encoder(self, x):
        return x

    def dec_out_proj(self, transformed):
        step = int(round(float(transformed[0, 0])))
        out = self.torch.full((transformed.shape[0], self.nclass), -5.0)
        for b, ln in enumerate(self.script):
            out[b, ln[step] if step < len(ln) else self.eos] = 5.0
        return out


def scripted_loop(ctx, rng, torch):
    reqs, impl = [], []
    for it in range(150 if ctx.quick() else 1500):
        nclass = rng.randrange(4, 8)
        eos, ign = nclass - 2, nclass - 1
        B = rng.choice([1, 1, 2, 3])
        W = rng.choice([8, 16, 32, 48])
        script = []
        for b in range(B):
            n = rng.randrange(0, W // 4 + 3)
            ln = [rng.choice(list(range(nclass - 2)) + [ign, ign]) for _ in range(n)]
            if ln and rng.random() < 0.3:
                ln.insert(rng.randrange(len(ln) + 1), eos)       # a boundary in the middle: the rest must be cut off
            script.append(ln)
        eng = make_engine(ScriptNet(torch, script, nclass, eos), nclass)
        x = np.zeros((B, 3, 16, W), dtype=np.uint8)
        inp = dict(scripted_network=True, script=script, boundary=eos, ignore=ign, width=W)
        ctx.evaluations += 1
        try:
            labels, logits = eng.transcribe_batch(x, is_cached=True)
        except (AttributeError, TypeError, NotImplementedError) as e:
            # the scripted stand-in offers only what transcribe_batch uses today (encode, dec_embeder, pos_encoder, trans_decoder.infer,
            # dec_out_proj); if a restructured loop needs more, the stand-in is unusable - that says nothing about the property
            ctx.count('scripted_network_unusable')
            if 'scripted network unusable' not in ' '.join(ctx.notes):
                ctx.notes.append('scripted network unusable with this transcribe_batch (%r): loop correspondence skipped, the random-weight oracles remain' % (e,))
            continue
        except Exception as e:
            ctx.violation('scripted-raises:' + type(e).__name__, 'transcribe_batch raised %r with a scripted network' % (e,), inp)
            continue
        got = [l.tolist() for l in labels]
        iters = int(logits.shape[1])
        # independent oracle, per line: what the line emits up to its first boundary (at most W//4 symbols), ignore symbols skipped
        for b, ln in enumerate(script):
            cut = ln[:ln.index(eos)] if eos in ln else ln
            exp = [s for s in cut[:W // 4] if s != ign]
            if got[b] != exp:
                ctx.violation('scripted-loop', "a line's transcription is not what the network emits for it up to its first boundary (cap W//4), ignore symbols skipped",
                              inp, [b, got[b]], exp)
                break
        if iters > W // 4 + 2:
            ctx.violation('loop-too-long', 'decoding did not stop within W//4 + 2 iterations', inp, iters)
        if B >= 2 or any(ign in ln for ln in script):
            ctx.nontriv(inp)
        reqs.append(dict(p='C20', op='loop', script=script, eos=eos, ign=ign, width=W))
        impl.append((inp, got, iters))
    if ctx.driver_ok:
        for r, (inp, got, iters) in zip(common.Driver(ctx).batch(reqs), impl):
            m = r.get('ok')
            if m is None or m['texts'] != got or m['iterations'] != iters:
                ctx.disagree('C20 greedy loop: transcriptions / number of network evaluations differ from the model (transcribeLoop + postprocess)', inp, [got, iters], m)
            else:
                ctx.traces_validated += 1


class Recorder:
    """Wraps Decoder.infer: snapshots the cache tensors around every step (write set, re-allocation) and optionally
    poisons with NaN every slot the model calls invalid (slots >= seq_len-1 of caches that survive into this step)."""

    def __init__(self, net, transformer, poison):
        self.net = net
        self.transformer = transformer
        self.poison = poison
        self.steps = []

    def __enter__(self):
        import torch
        dec = self.net.trans_decoder
        self.orig = dec.infer
        rec = self

        def infer(tgt, memory, is_cached=False, return_attention=False):
            seq_len = tgt.shape[0]
            B = tgt.shape[1]
            E = tgt.shape[2]
            before = []
            for layer in dec.layers:
                sa, ca = layer.self_attn, layer.multihead_attn
                if rec.poison and is_cached:
                    if layer.memory_tgt is not None and layer.memory_tgt.shape[1] == B:
                        layer.memory_tgt[seq_len - 1:] = float('nan')
                    elif layer.memory_tgt is not None:
                        layer.memory_tgt[:] = float('nan')
                    if sa.linear_cache is not None:
                        if seq_len > 1:
                            sa.linear_cache[seq_len - 1:] = float('nan')
                        else:
                            sa.linear_cache[:] = float('nan')
                    if ca.linear_cache is not None:
                        if seq_len > 1:
                            ca.linear_cache[:, :, :E] = float('nan')            # the stored queries are never read
                            ca.linear_cache[memory.shape[0]:, :, E:] = float('nan')
                        else:
                            ca.linear_cache[:] = float('nan')
                before.append((None if layer.memory_tgt is None else layer.memory_tgt.clone(),
                               None if sa.linear_cache is None else (sa.linear_cache.clone(), sa.linear_cache.data_ptr())))
            out = rec.orig(tgt, memory, is_cached, return_attention)
            if is_cached:
                st = dict(seq_len=seq_len, mem_written=[], self_written=[], self_realloc=[])
                for layer, (m0, s0) in zip(dec.layers, before):
                    m1 = layer.memory_tgt
                    if m0 is None or m0.shape != m1.shape:
                        st['mem_written'].append([seq_len - 1])      # fresh allocation: only the written slot is defined
                    else:
                        diff = ~((m0 == m1) | (torch.isnan(m0) & torch.isnan(m1)))
                        st['mem_written'].append(sorted(set(torch.nonzero(diff.flatten(1).any(dim=1)).flatten().tolist()) | {seq_len - 1}))
                    s1 = layer.self_attn.linear_cache
                    realloc = s0 is None or s0[0].shape != s1.shape or s0[1] != s1.data_ptr()
                    st['self_realloc'].append(bool(realloc))
                    if realloc:
                        st['self_written'].append(None)
                    else:
                        diff = ~((s0[0] == s1) | (torch.isnan(s0[0]) & torch.isnan(s1)))
                        st['self_written'].append(sorted(set(torch.nonzero(diff.flatten(1).any(dim=1)).flatten().tolist()) | {seq_len - 1}))
                rec.steps.append(st)
            return out
        dec.infer = infer
        return self

    def __exit__(self, *a):
        self.net.trans_decoder.infer = self.orig


def replay(data):
    for v in data.get('violations', []):
        print('replay', v['key'], v['what'], v['input'], v['observed'])
    return 1 if data.get('violations') else 0
