"""C09 — saved logits restore exactly; saved artefacts suffice to rebuild outputs (DESIGN §5-C09).

Real: PageLayout.save_logits / save_logits_bytes / load_logits, TextLine.get_dense_logits / get_full_logprobs,
and the end-to-end rebuild PAGE XML + logits -> same greedy transcriptions and same ALTO words.
Model: LS.genLogits / LS.load on payload names (exact).
"""
import os
import pickle
import re
import tempfile

import numpy as np

from . import common

RESERVED = ['line_characters', 'logit_coords']


def mk_layout(rng, ids, payloads):
    """payloads[i] = (logits|None, chars|None, coords|None)"""
    from pero_ocr.core.layout import PageLayout, RegionLayout, TextLine
    pl = PageLayout(id='pg', page_size=(300, 400))
    nreg = rng.randrange(1, 3)
    regs = [RegionLayout('r%d' % k, np.array([[0, 0], [400, 0], [400, 300], [0, 300]])) for k in range(nreg)]
    for i, (lid, (lg, ch, co)) in enumerate(zip(ids, payloads)):
        y = 20 + 12 * i
        line = TextLine(id=lid, baseline=np.array([[10, y], [200, y]]),
                        polygon=np.array([[10, y - 8], [200, y - 8], [200, y + 3], [10, y + 3]]), heights=[8, 3],
                        transcription='', logits=lg, characters=ch, logit_coords=co)
        regs[0 if (nreg == 1 or i < len(ids) // 2) else 1].lines.append(line)
    pl.regions = regs
    return pl


def rnd_matrix(rng, chars):
    from scipy import sparse
    T = rng.randrange(1, 9)
    C = len(chars) + 1
    dens = rng.choice([0.0, 0.2, 0.6, 1.0])
    M = np.array([[(rng.uniform(-9, 9) if rng.random() < dens else 0.0) for _ in range(C)] for _ in range(T)])
    return sparse.csc_matrix(M)


def same_matrix(a, b):
    from scipy import sparse
    if a is None or b is None:
        return a is b
    if not (sparse.issparse(a) and sparse.issparse(b)):
        return False
    return a.shape == b.shape and (a != b).nnz == 0


def run(ctx):
    from pero_ocr.core.layout import PageLayout
    rng = ctx.rng
    ctx.rule = ('pages with 0..6 lines in 1..2 regions; sparse matrices of any shape/sparsity; charsets; frame windows present or '
                '[None, None]; incomplete lines with/without missing_line_logits_ok; partial files (subset / superset of ids); '
                'legacy files without the reserved keys; file-path and bytes variants; occasionally duplicate ids and ids equal to '
                'a reserved key (hypotheses of the theorem, run on the real code). non-trivial = >= 2 lines, target layout has '
                'other payloads before loading')
    ctx.assumptions += ['pickle round-trips the dict of scipy sparse matrices / lists exactly', 'scipy.sparse toarray() returns the stored entries']
    reqs, impl = [], []
    n = 500 if ctx.quick() else 6000
    for it in range(n):
        nl = rng.randrange(0, 7)
        ids = ['l%d' % i for i in range(nl)]
        weird = None
        r = rng.random()
        if nl >= 2 and r < 0.06:
            ids[rng.randrange(nl)] = rng.choice(RESERVED)
            weird = 'reserved-id'
        elif nl >= 2 and r < 0.12:
            ids[1] = ids[0]
            weird = 'duplicate-id'
        objs = {}   # name -> object

        def name(o, kind):
            k = len(objs) + 10
            objs[k] = (kind, o)
            return k
        src_pay, src_names = [], []
        for i in range(nl):
            chars = [chr(97 + j) for j in range(rng.randrange(1, 5))]
            if rng.random() < 0.35:
                # character tables of several engines on one page: multi-codepoint symbols, combining marks, an empty-string
                # symbol, the same symbols in another order / another segmentation (equal when concatenated, different as tables)
                chars = rng.choice([['e', '\u0301', 'x', ' '], ['e\u0301', 'x', ' '], ['ex', ' ', ''], ['e', 'x', ' '], ['x', 'e', ' '],
                                    ['', 'e', 'x', ' '], ['e', '', 'x', ' '], ['ch', 'a'], ['c', 'h', 'a'], ['c', 'ha']])
            lg = rnd_matrix(rng, chars)
            co = [None, None] if rng.random() < 0.3 else [rng.randrange(0, 3), rng.randrange(3, 9)]
            miss = rng.random()
            p = [lg, chars, co]
            if miss < 0.08:
                p[rng.randrange(3)] = None
            src_pay.append(tuple(p))
            src_names.append(tuple(None if x is None else name(x, k) for x, k in zip(p, 'LKC')))
        flag = rng.random() < 0.3
        legacy = rng.random() < 0.1
        via_bytes = rng.random() < 0.5
        src = mk_layout(rng, ids, src_pay)
        # destination: same ids, plus/minus some, with its own previous payloads
        dst_ids = list(ids)
        mode = rng.random()
        if mode < 0.25 and dst_ids:
            dst_ids = dst_ids[:-1]            # file is a superset
        elif mode < 0.5:
            dst_ids = dst_ids + ['extra%d' % it]   # file is a subset
        dst_pay, dst_names = [], []
        for i in range(len(dst_ids)):
            if rng.random() < 0.5:
                chars = ['z']
                p = (rnd_matrix(rng, chars), chars, [0, 1])
            else:
                p = (None, None, None)
            dst_pay.append(p)
            dst_names.append(tuple(None if x is None else name(x, k) for x, k in zip(p, 'LKC')))
        dst = mk_layout(rng, dst_ids, dst_pay)
        ctx.evaluations += 1
        inp = dict(ids=ids, dst_ids=dst_ids, missing_ok=flag, legacy=legacy, via_bytes=via_bytes, weird=weird,
                   incomplete=[i for i, p in enumerate(src_pay) if None in p],
                   charsets=[p[1] for p in src_pay], windows=[p[2] for p in src_pay])
        complete = all(None not in p for p in src_pay)
        outcome = None
        try:
            if via_bytes:
                blob = src.save_logits_bytes(missing_line_logits_ok=flag)
                if legacy:
                    d = pickle.loads(blob)
                    d.pop('line_characters', None)
                    d.pop('logit_coords', None)
                    blob = pickle.dumps(d)
                saved = True
            else:
                fd, path = tempfile.mkstemp(suffix='.logits')
                os.close(fd)
                src.save_logits(path, missing_line_logits_ok=flag)
                if legacy:
                    d = pickle.load(open(path, 'rb'))
                    d.pop('line_characters', None)
                    d.pop('logit_coords', None)
                    pickle.dump(d, open(path, 'wb'))
                saved = True
        except Exception as e:
            saved = False
            msg = str(e)
            outcome = 'missing-logits' if 'Missing logits for' in msg else 'missing-chars' if 'mapping to characters' in msg else \
                'missing-coords' if 'coords' in msg else 'EXC:' + type(e).__name__
        if not saved:
            if complete or flag:
                ctx.violation('save-raises', 'saving a complete page (or with missing_line_logits_ok) raised %s' % outcome, inp)
        else:
            if not complete and not flag:
                ctx.violation('missing-saved-silently', 'a missing component was saved silently', inp)
            try:
                dst.load_logits(blob if via_bytes else path)
                got = []
                for line in dst.lines_iterator():
                    got.append((line.id, line.logits, line.characters, line.logit_coords))
                outcome = got
            except KeyError:
                outcome = 'key-error'
            except TypeError:
                outcome = 'type-error'
            finally:
                if not via_bytes:
                    os.remove(path)
        # ---- oracle for the property's quantifier: distinct, non-reserved ids, complete lines
        if isinstance(outcome, list) and weird is None and complete and not legacy:
            srcmap = {lid: p for lid, p in zip(ids, src_pay)}
            for (lid, lg, ch, co), before in zip(outcome, dst_pay):
                if lid in srcmap:
                    s = srcmap[lid]
                    if not same_matrix(lg, s[0]) or ch != s[1] or co != s[2]:
                        ctx.violation('not-restored', 'logits / characters / frame window not restored identically', inp, lid)
                else:
                    if not (lg is before[0] and ch is before[1] and co is before[2]):
                        ctx.violation('absent-touched', 'a line absent from the file was modified', inp, lid)
        elif weird is not None and isinstance(outcome, list):
            srcmap = {}
            for lid, p in zip(ids, src_pay):
                srcmap[lid] = p   # last wins
            for (lid, lg, ch, co) in outcome:
                if lid in ids:
                    first = src_pay[ids.index(lid)]
                    if not same_matrix(lg, first[0]) if not isinstance(lg, dict) else True:
                        ctx.violation('collision:' + weird, 'a line does not get its own logits back (id collides with %s)' % ('a reserved key' if weird == 'reserved-id' else 'another line'), inp, lid)
        elif weird is not None and outcome in ('key-error', 'type-error'):
            ctx.violation('collision:' + weird, 'loading fails with %s (id collides with %s)' % (outcome, 'a reserved key' if weird == 'reserved-id' else 'another line'), inp)
        if nl >= 2 and any(p[0] is not None for p in dst_pay):
            ctx.nontriv(inp)
        ctx.sample(dict(inp, outcome=outcome if isinstance(outcome, str) else 'loaded'), limit=4)
        # ---- model request
        idmap = {'line_characters': 0, 'logit_coords': 1}

        def kid(s):
            if s not in idmap:
                idmap[s] = len(idmap) + 1
            return idmap[s]
        reqs.append(dict(p='C09', op='roundtrip', missing_ok=flag, legacy=legacy,
                         src=[dict(id=kid(l), logits=nm[0], chars=nm[1], coords=nm[2]) for l, nm in zip(ids, src_names)],
                         dst=[dict(id=kid(l), logits=nm[0], chars=nm[1], coords=nm[2]) for l, nm in zip(dst_ids, dst_names)]))

        def nameof(o, kind, lid=None, objs=objs):
            if o is None:
                return None
            if isinstance(o, dict):
                return 'chars-dict' if lid == 'line_characters' else 'coords-dict'
            for k, (kd, ob) in objs.items():
                if kd == kind and (same_matrix(o, ob) if kind == 'L' else o == ob):
                    return k
            if kind == 'C' and o == [None, None]:
                return 999
            return -1
        impl.append((inp, outcome, objs, nameof))
    # dense reconstruction
    from pero_ocr.core.layout import TextLine
    from scipy import sparse as _sp
    for it in range(120 if ctx.quick() else 2000):
        chars = ['a', 'b', 'c']
        if it % 2 == 0:
            lg = rnd_matrix(rng, chars)
            tol = 1e-9
            kind = 'float64'
        else:
            # what the OCR engine stores: float32 logits, confident frames with large logits next to frames in which (nearly)
            # everything was pruned, so that rows of one line differ by more than 100 after the floor is filled in
            T = rng.randrange(1, 9)
            big = rng.choice([9.0, 30.0, 60.0])
            rows = []
            for _ in range(T):
                r = rng.random()
                if r < 0.3:
                    rows.append([0.0] * 4)                                            # fully pruned frame
                elif r < 0.6:
                    row = [0.0] * 4
                    row[rng.randrange(4)] = rng.uniform(big / 2, big)                  # one confident symbol
                    rows.append(row)
                else:
                    rows.append([(rng.uniform(-big, big) if rng.random() < 0.6 else 0.0) for _ in range(4)])
            dt = rng.choice([np.float32, np.float32, np.float64])
            arr = np.array(rows, dtype=dt)
            if rng.random() < 0.3:
                # sparse logits built from (row, col, value) triplets: zeros are STORED explicitly; they still read 0.0 = pruned
                rr, cc = np.nonzero(np.ones_like(arr))
                lg = _sp.csc_matrix((arr[rr, cc], (rr, cc)), shape=arr.shape)
                ctx.count('dense:explicit-zeros')
            else:
                lg = _sp.csc_matrix(arr)
            tol = 1e-4 if dt == np.float32 else 1e-9
            kind = 'float32' if dt == np.float32 else 'float64-wide'
        ctx.count('dense:' + kind)
        try:
            line = TextLine(id='x', logits=lg)
            d = line.get_dense_logits()
            st = lg.toarray()
            ctx.evaluations += 1
            rep_in = dict(matrix=st.tolist(), dtype=kind)
            if not np.array_equal(d[st != 0], st[st != 0]) or not np.all(d[st == 0] == -80):
                ctx.violation('dense', 'dense reconstruction does not return stored logits / floor', rep_in)
            lp = line.get_full_logprobs()
            with np.errstate(all='ignore'):
                rs = np.exp(np.asarray(lp, dtype=np.float64)).sum(axis=1)
            if not np.all(np.isfinite(lp)) or np.abs(rs - 1).max() > max(tol, 1e-9) * 10:
                ctx.violation('dense-normalised', 'full log-probs are not row-normalised', rep_in)
            # the floor is a parameter of every call: repeated reconstructions of the SAME line with different floors
            for floor in (rng.choice([-50.0, -20.0, -120.0]), -80, rng.choice([-30.0, -99.0])):
                d2 = line.get_dense_logits(floor)
                if not np.array_equal(d2[st != 0], st[st != 0]) or not np.all(d2[st == 0] == floor):
                    ctx.violation('dense-floor', 'dense reconstruction does not return the requested floor for pruned entries', dict(rep_in, floor=floor))
                lp2 = line.get_full_logprobs(floor)
                d64 = np.asarray(d2, dtype=np.float64)
                ref = d64 - np.logaddexp.reduce(d64, axis=1)[:, np.newaxis]
                with np.errstate(all='ignore'):
                    bad = (not np.all(np.isfinite(lp2))) or np.abs(lp2 - ref).max(initial=0) > tol * (1 + np.abs(ref).max(initial=0)) \
                        or np.abs(np.exp(np.asarray(lp2, dtype=np.float64)).sum(axis=1) - 1).max(initial=0) > max(tol, 1e-9) * 10
                if bad:
                    ctx.violation('dense-floor-logprobs', 'log-probabilities are not the row-normalised dense logits for the requested floor', dict(rep_in, floor=floor))
        except Exception as e:
            ctx.violation('dense-raises:' + type(e).__name__, 'dense reconstruction / log-probabilities raised %r' % (e,), dict(matrix=lg.toarray().tolist(), dtype=kind))
            continue
        if not np.array_equal(lg.toarray(), st):
            ctx.violation('dense-mutates', 'dense reconstruction modified the stored sparse logits', rep_in)
    # end-to-end rebuild: PAGE XML + logits -> same greedy text, same ALTO words
    e2e(ctx, rng)
    if ctx.driver_ok:
        rep = common.Driver(ctx).batch(reqs)
        for r, (inp, outcome, objs, nameof) in zip(rep, impl):
            m = r.get('ok', r.get('err'))
            if isinstance(outcome, str):
                if m != outcome:
                    ctx.disagree('C09 outcome differs', inp, outcome, m)
                else:
                    ctx.traces_validated += 1
                continue
            if not isinstance(m, list) or len(m) != len(outcome):
                ctx.disagree('C09 outcome differs', inp, 'loaded', m)
                continue
            bad = False
            for ml, (lid, lg, ch, co) in zip(m, outcome):
                exp = (ml['logits'], ml['chars'], ml['coords'])
                got = (nameof(lg, 'L', lid), nameof(ch, 'K'), nameof(co, 'C'))
                # several equal payload objects may exist: compare by content-equality classes
                def eqv(a, b, kind):
                    if a == b:
                        return True
                    if a in objs and b in objs and objs[a][0] == objs[b][0] == kind:
                        oa, ob = objs[a][1], objs[b][1]
                        return same_matrix(oa, ob) if kind == 'L' else oa == ob
                    if kind == 'C' and {a, b} <= ({999} | {k for k, (kd, o) in objs.items() if kd == 'C' and o == [None, None]}):
                        return True
                    return False
                if not (eqv(exp[0], got[0], 'L') and eqv(exp[1], got[1], 'K') and eqv(exp[2], got[2], 'C')):
                    bad = True
            if bad:
                ctx.disagree('C09 loaded payloads differ', inp, [(l, nameof(a, 'L', l), nameof(b, 'K'), nameof(c, 'C')) for l, a, b, c in outcome], m)
            else:
                ctx.traces_validated += 1
    else:
        ctx.notes.append('driver unavailable: correspondence skipped, oracle only')


def e2e(ctx, rng):
    """Rebuild a layout from its PAGE XML + saved logits; decoding and ALTO words must be those of the original."""
    from scipy import sparse
    from pero_ocr.core.layout import PageLayout, RegionLayout, TextLine
    from pero_ocr.ocr_engine.pytorch_ocr_engine import greedy_decode_ctc
    import torch
    for _ in range(12 if ctx.quick() else 150):
        chars = list('abcde ')
        C = len(chars) + 1
        pl = PageLayout(id='pg', page_size=(300, 600))
        reg = RegionLayout('r1', np.array([[0, 0], [600, 0], [600, 300], [0, 300]]))
        for i in range(rng.randrange(1, 4)):
            text = ' '.join(''.join(rng.choice('abcde') for _ in range(rng.randrange(1, 5))) for _ in range(rng.randrange(1, 4)))
            T = 3 * len(text) + rng.randrange(0, 5)
            L = np.full((T, C), -6.0)
            L[:, C - 1] = 3.0
            for k, ch in enumerate(text):
                L[1 + 3 * k, chars.index(ch)] = 9.0
            probs = np.exp(L - np.log(np.exp(L).sum(axis=1, keepdims=True)))
            L[probs < 1e-4] = 0
            y = 40 + 60 * i
            reg.lines.append(TextLine(id='r1-l%03d' % i, baseline=np.array([[20, y], [500, y]]),
                                      polygon=np.array([[20, y - 20], [500, y - 20], [500, y + 8], [20, y + 8]]), heights=[20, 8],
                                      transcription=text, logits=sparse.csc_matrix(L), characters=chars + ['​'], logit_coords=[0, T]))
        pl.regions.append(reg)
        ctx.evaluations += 1
        xml = pl.to_pagexml_string()
        blob = pl.save_logits_bytes()
        re_pl = PageLayout()
        re_pl.from_pagexml_string(xml)
        re_pl.load_logits(blob)

        def words(alto):
            return re.findall(r'CONTENT="([^"]*)"', alto)

        def decode(layout):
            out = []
            for line in layout.lines_iterator():
                lp = line.get_full_logprobs()
                out.append(greedy_decode_ctc(torch.from_numpy(lp.T[None].copy()).float(), line.characters)[0])
            return out
        try:
            if decode(pl) != decode(re_pl):
                ctx.violation('e2e-decode', 'rebuilt layout re-decodes to different transcriptions', dict(texts=[l.transcription for l in pl.lines_iterator()]))
            if words(pl.to_altoxml_string()) != words(re_pl.to_altoxml_string()):
                ctx.violation('e2e-alto', 'rebuilt layout exports different ALTO text', dict(texts=[l.transcription for l in pl.lines_iterator()]))
            ctx.count('e2e_rebuilds')
        except Exception as e:
            ctx.violation('e2e-raises:' + type(e).__name__, 'rebuild raised %r' % (e,), dict(texts=[l.transcription for l in pl.lines_iterator()]))


def replay(data):
    for v in data.get('violations', []):
        print('replay', v['key'], v['what'], str(v['input'])[:500], v['observed'])
    return 1 if data.get('violations') else 0
