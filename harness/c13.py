"""C13 — edit distance, alignments, error summaries (DESIGN §5-C13).

Correspondence: real pero_ocr.sequence_alignment / error_summary vs Lean model `Lev` (exact).
Oracle on the real code: independent memoised recursion, projection + cost of returned alignments,
brute-force substring minimum, stats sum, aggregate = addition.
"""
import itertools
from functools import lru_cache

from . import common

INF = float('inf')


def _imports():
    from pero_ocr import sequence_alignment as sa
    from pero_ocr import error_summary as es
    return sa, es


def py(x):
    """numpy scalar -> python value"""
    return x.item() if hasattr(x, 'item') else x


def ref_dist(s, t, c):
    sub, ins, dele = c
    s = tuple(s)
    t = tuple(t)
    prev = [j * ins for j in range(len(t) + 1)]
    for i in range(1, len(s) + 1):
        cur = [i * dele] + [0] * len(t)
        for j in range(1, len(t) + 1):
            cur[j] = min(prev[j] + dele, cur[j - 1] + ins, prev[j - 1] + (0 if s[i - 1] == t[j - 1] else sub))
        prev = cur
    return prev[-1]


def ref_substring(a, b):
    """min over all infixes u of the longer sequence of unit-cost distance(u, shorter)."""
    if len(b) > len(a):
        a, b = b, a
    best = len(b)  # empty infix
    for i in range(len(a) + 1):
        for j in range(i, len(a) + 1):
            d = ref_dist(a[i:j], b, (1, 1, 1))
            if d < best:
                best = d
    return best


def ids_of(*seqs):
    table = {}
    out = []
    for s in seqs:
        o = []
        for x in s:
            k = (type(x).__name__, x)
            if k not in table:
                table[k] = len(table)
            o.append(table[k])
        out.append(o)
    return out


def gen_cases(ctx):
    rng = ctx.rng
    cases = []
    # exhaustive small scope
    L = 3 if ctx.quick() else 4
    alpha = ['a', 'b', 'c']
    seqs = [list(p) for n in range(L + 1) for p in itertools.product(alpha, repeat=n)]
    for s in seqs:
        for t in seqs:
            cases.append(('exh-unit', s, t, (1, 1, 1)))
    L2 = 2 if ctx.quick() else 3
    seqs2 = [list(p) for n in range(L2 + 1) for p in itertools.product([0, 1], repeat=n)]
    allc = list(itertools.product(range(1, 5), repeat=3))
    for s in seqs2:
        for t in seqs2:
            for c in (allc if not ctx.quick() else rng.sample(allc, 12)):
                cases.append(('exh-costs', s, t, c))
    ctx.cov['exhaustive_scope'] = 'all pairs len<=%d over 3 symbols, unit costs; all pairs len<=%d over 2 symbols x costs 1..4' % (L, L2)
    # random structured
    n = 250 if ctx.quick() else 6000
    pools = {
        'int': lambda k: [rng.randrange(k) for _ in range(rng.randrange(0, 30))],
        'str': lambda k: [chr(97 + rng.randrange(k)) for _ in range(rng.randrange(0, 30))],
        'big': lambda k: [rng.randrange(10 ** 6) for _ in range(rng.randrange(0, 40))],
        'mixed': lambda k: [rng.choice([rng.randrange(k), str(rng.randrange(k)), chr(97 + rng.randrange(k))]) for _ in range(rng.randrange(0, 12))],
    }
    for _ in range(n):
        kind = rng.choice(['int', 'str', 'str', 'big', 'mixed'])
        k = rng.choice([2, 3, 5, 26])
        s = pools[kind](k)
        mode = rng.random()
        if mode < 0.35:
            t = pools[kind](k)
        elif mode < 0.7:   # mutate s
            t = list(s)
            for _ in range(rng.randrange(0, 4)):
                op = rng.randrange(3)
                pos = rng.randrange(len(t) + 1)
                if op == 0 and t:
                    del t[min(pos, len(t) - 1)]
                elif op == 1:
                    t.insert(pos, (pools[kind](k) or [s[0] if s else 0])[0])
                elif t:
                    t[min(pos, len(t) - 1)] = (pools[kind](k) or [t[0]])[0]
        elif mode < 0.85 and s:   # substring
            i = rng.randrange(len(s))
            j = rng.randrange(i, len(s) + 1)
            t = s[i:j]
        else:  # needs insertion before the first match
            t = (pools[kind](k)[:1] or s[:1]) + s[:rng.randrange(0, len(s) + 1)]
        if rng.random() < 0.5:
            s, t = t, s
        r = rng.random()
        if r < 0.45:
            c = (1, 1, 1)
        elif r < 0.8:
            c = (rng.randrange(1, 5), rng.randrange(1, 5), rng.randrange(1, 5))
        else:
            # "any positive integer costs": large magnitudes where competing routes differ by 1 in 10^5..10^9 (substitution one
            # cheaper / dearer than deletion + insertion), and unrelated large costs
            d, i = rng.choice([10 ** 5, 10 ** 6, 123457, 10 ** 9]), rng.choice([10 ** 5, 10 ** 6, 99991, 10 ** 9])
            c = (rng.choice([d + i - 1, d + i + 1, d + i, rng.randrange(1, 2 * 10 ** 6)]), i, d)
            ctx.count('large_costs')
        cases.append(('rnd-' + kind, s, t, c))
    return cases


def check_impl_case(ctx, sa, kind, s, t, c, out):
    """Run the real code on one case, judge it with the oracle; `out` collects what is compared with the model."""
    sub, ins, dele = c
    inp = dict(s=s, t=t, costs=list(c))
    exp = ref_dist(s, t, c)
    try:
        d = py(sa.levenshtein_distance(list(s), list(t), sub, ins, dele))
    except Exception as e:
        d = 'EXC:' + type(e).__name__
    out['dist'] = d
    if d != exp:
        ctx.violation('dist:%s' % kind_class(s, t), 'levenshtein_distance is not the minimum edit cost', inp, d, exp)
    for name, fn in (('align', sa.levenshtein_alignment), ('path', sa.levenshtein_alignment_path)):
        try:
            al = fn(list(s), list(t), sub, ins, dele)
        except Exception as e:
            out[name] = 'EXC:' + type(e).__name__
            ctx.violation('%s-raises:%s' % (name, kind_class(s, t)), '%s raised %r' % (fn.__name__, e), inp)
            continue
        if name == 'align':
            al = [(py(a), py(b)) for a, b in al]
            out[name] = al
            ps = [a for a, b in al if a is not None]
            pt = [b for a, b in al if b is not None]
            cost = sum((dele if b is None else ins if a is None else (0 if a == b else sub)) for a, b in al)
            bad = None
            if any(a is None and b is None for a, b in al):
                bad = 'alignment contains an (empty, empty) pair'
            elif not seq_eq(ps, s) or not seq_eq(pt, t):
                bad = 'alignment does not project to its inputs'
            elif cost != exp:
                bad = 'alignment cost differs from the minimum'
            if bad:
                ctx.violation('align:%s' % kind_class(s, t), 'levenshtein_alignment: ' + bad, inp, al, exp)
        else:
            al = [int(py(x)) for x in al]
            out[name] = al
            n_s = sum(1 for x in al if x >= 0)
            n_t = sum(1 for x in al if x <= 0)
            # replay the path
            i = j = 0
            cost = 0
            okp = (n_s == len(s) and n_t == len(t))
            if okp:
                for x in al:
                    if x == 1:
                        cost += dele
                        i += 1
                    elif x == -1:
                        cost += ins
                        j += 1
                    else:
                        cost += 0 if s[i] == t[j] else sub
                        i += 1
                        j += 1
            if not okp or cost != exp:
                ctx.violation('path:%s' % kind_class(s, t), 'levenshtein_alignment_path: wrong projection or cost', inp, al, exp)


def seq_eq(a, b):
    return len(a) == len(b) and all(type(x) is type(y) and x == y for x, y in zip(a, b))


def kind_class(s, t):
    ts = {type(x).__name__ for x in list(s) + list(t)}
    if len(ts) > 1:
        return 'mixed-types'
    return 'homogeneous'


def run(ctx):
    sa, es = _imports()
    ctx.rule = ('exhaustive small scope + seeded random pairs (ints, strings, large alphabets, mixed int/str; mutations, '
                'substrings, insertion-before-first-match); non-trivial = both non-empty and 0 < distance and '
                'distance not in {|len diff|*ins or del}')
    ctx.assumptions += ['NumPy integer arithmetic and elementwise comparison are exact (D1)']
    cases = gen_cases(ctx)
    reqs = []
    impl = []
    for kind, s, t, c in cases:
        out = {}
        check_impl_case(ctx, sa, kind, s, t, c, out)
        impl.append(out)
        ctx.evaluations += 1
        ctx.count('kind:' + kind)
        d = ref_dist(s, t, c)
        if s and t and d > 0 and d not in (abs(len(s) - len(t)) * c[1], abs(len(s) - len(t)) * c[2]):
            ctx.nontriv([s, t, c])
        if len(ctx.samples) < 4 and kind.startswith('rnd') and s and t:
            ctx.sample(dict(kind=kind, s=s, t=t, costs=c, dist=out.get('dist')))
        si, ti = ids_of(s, t)
        for op in ('dist', 'align', 'path'):
            reqs.append(dict(p='C13', op=op, s=si, t=ti, c=list(c)))

    # substring variants + error summaries (unit costs)
    sub_cases = [(k, s, t) for k, s, t, c in cases if c == (1, 1, 1)]
    if ctx.quick():
        sub_cases = sub_cases[:1200] + sub_cases[-150:]
    sub_reqs, sub_impl = [], []
    alsub_reqs, alsub_impl = [], []
    for kind, s, t in sub_cases:
        inp = dict(s=s, t=t)
        exp = ref_substring(s, t)
        ctx.evaluations += 1
        try:
            d = py(sa.levenshtein_distance_substring(list(s), list(t)))
        except Exception as e:
            d = 'EXC:' + type(e).__name__
        sub_reqs.append(dict(p='C13', op='distsub', s=ids_of(s, t)[0], t=ids_of(s, t)[1], c=[1, 1, 1]))
        sub_impl.append(d)
        if d != exp:
            ctx.violation('substring-dist:%s:%s' % (kind_class(s, t), 'both-empty' if not s and not t else 'nonempty'),
                          'levenshtein_distance_substring is not the minimum over substrings', inp, d, exp)
        try:
            al = sa.levenshtein_alignment_substring(list(s), list(t))
            al = [(py(a), py(b)) for a, b in al]
            alsub_reqs.append(dict(p='C13', op='alignsub', s=ids_of(s, t)[0], t=ids_of(s, t)[1], c=[1, 1, 1]))
            alsub_impl.append((inp, al, s, t))
            ps = [a for a, b in al if a is not None]
            pt = [b for a, b in al if b is not None]
            swapped = len(t) > len(s)
            # free part: leading/trailing pairs that consume only the longer sequence
            lo, hi = 0, len(al)
            free = (lambda p: p[0] is None and p[1] is not None) if swapped else (lambda p: p[1] is None and p[0] is not None)
            # remove the maximal free prefix/suffix that keeps cost minimal: the cost of the rest must be exp for SOME trimming
            best = None
            i = 0
            while True:
                j = len(al)
                while True:
                    core = al[i:j]
                    cst = sum(1 for a, b in core if a is None or b is None or a != b)
                    best = cst if best is None else min(best, cst)
                    if j > i and free(al[j - 1]):
                        j -= 1
                    else:
                        break
                if i < len(al) and free(al[i]):
                    i += 1
                else:
                    break
            if not seq_eq(ps, s) or not seq_eq(pt, t):
                ctx.violation('substring-align:%s' % kind_class(s, t), 'levenshtein_alignment_substring does not project to its inputs', inp, al)
            elif best != exp:
                ctx.violation('substring-align-cost:%s' % kind_class(s, t), 'substring alignment cost (free ends removed) is not the substring optimum', inp, al, exp)
        except Exception as e:
            ctx.violation('substring-align-raises:%s:%s' % (kind_class(s, t), type(e).__name__), 'levenshtein_alignment_substring raised %r' % (e,), inp)
        # error summary
        try:
            summ = es.ErrorsSummary.from_lists(list(s), list(t))   # ref = s, hyp = t
            tot = py(summ.nb_subs) + py(summ.nb_inss) + py(summ.nb_dels)
            if tot != ref_dist(s, t, (1, 1, 1)) or py(summ.nb_errors) != ref_dist(s, t, (1, 1, 1)):
                ctx.violation('summary:%s' % kind_class(s, t), 'ErrorsSummary: sub+ins+del != distance', inp,
                              [py(summ.nb_subs), py(summ.nb_inss), py(summ.nb_dels), py(summ.nb_errors)], ref_dist(s, t, (1, 1, 1)))
            ee = summ.ending_errors
            flags = [bool(ee.correct), bool(ee.pure_deletions), bool(ee.mixed_deletions), bool(ee.pure_insertions),
                     bool(ee.mixed_insertions), bool(ee.pure_substitutions)]
            if sum(flags) != 1:
                ctx.violation('summary-ending:%s' % kind_class(s, t), "a line's summary does not set exactly one line-end flag", inp, flags)
            impl.append({'stats': [py(summ.nb_inss), py(summ.nb_dels), py(summ.nb_subs)],
                         'ending': flags.index(True) if sum(flags) == 1 else 6})
            hi_, ri_ = ids_of(t, s)
            reqs.append(dict(p='C13', op='stats', s=hi_, t=ri_, c=[1, 1, 1]))
        except Exception as e:
            impl.append({'stats': 'EXC:' + type(e).__name__})
            hi_, ri_ = ids_of(t, s)
            reqs.append(dict(p='C13', op='stats', s=hi_, t=ri_, c=[1, 1, 1]))
            ctx.violation('summary-raises:%s' % kind_class(s, t), 'ErrorsSummary.from_lists raised %r' % (e,), inp)
    # aggregation = addition (every field, the confusion table and the line-end statistics included), the
    # summaries that are added up stay as they were, and aggregating aggregates equals aggregating the lines
    rng = ctx.rng
    homog = [(s, t) for k, s, t in sub_cases if kind_class(s, t) == 'homogeneous']
    fields = ['nb_lines_summarized', 'ref_len', 'nb_errors', 'nb_subs', 'nb_inss', 'nb_dels']
    efields = ['correct', 'pure_deletions', 'mixed_deletions', 'pure_insertions', 'mixed_insertions', 'pure_substitutions']

    def snap(x):
        conf = {}
        for r_, cnt in x.confusions.items():
            for h_, n_ in cnt.items():
                if n_:
                    conf[(repr(r_), repr(h_))] = py(n_)
        return ([py(getattr(x, f)) for f in fields], conf, [py(getattr(x.ending_errors, f)) for f in efields])

    def add_snaps(snaps):
        nums = [sum(sn[0][i] for sn in snaps) for i in range(len(fields))]
        conf = {}
        for sn in snaps:
            for k_, n_ in sn[1].items():
                conf[k_] = conf.get(k_, 0) + n_
        ends = [sum(sn[2][i] for sn in snaps) for i in range(len(efields))]
        return (nums, conf, ends)

    agg_reqs, agg_impl = [], []
    for _ in range(40 if ctx.quick() else 400):
        grp = [rng.choice(homog) for _ in range(rng.randrange(0, 7))]
        cut = rng.randrange(0, len(grp) + 1)
        try:
            sums = [es.ErrorsSummary.from_lists(list(s), list(t)) for s, t in grp]
            before = [snap(x) for x in sums]
            for (s, t), sn in zip(grp, before):
                if sum(sn[1].values()) != sn[0][1] + sn[0][4]:
                    ctx.violation('summary-confusions', "a line summary's confusion table does not hold ref_len + insertions pairs", dict(ref=s, hyp=t), sn[1])
            ag = es.ErrorsSummary.aggregate(sums)
            want = add_snaps(before)
            got = snap(ag)
            if got[0] != want[0]:
                ctx.violation('aggregate', 'ErrorsSummary.aggregate is not field-wise addition', dict(group=grp), got[0], want[0])
            if got[1] != want[1]:
                ctx.violation('aggregate-confusions', 'aggregated confusion table is not the sum of the per-line tables', dict(group=grp),
                              sorted(map(str, got[1].items())), sorted(map(str, want[1].items())))
            if got[2] != want[2]:
                ctx.violation('aggregate-endings', 'aggregated line-end statistics are not the sum of the per-line ones', dict(group=grp), got[2], want[2])
            if [snap(x) for x in sums] != before:
                ctx.violation('aggregate-mutates', 'aggregate changed the summaries it added up', dict(group=grp))
            # page totals, then a document total over the pages, and the flat total over the same lines
            a1 = es.ErrorsSummary.aggregate(sums[:cut])
            a2 = es.ErrorsSummary.aggregate(sums[cut:])
            two = snap(es.ErrorsSummary.aggregate([a1, a2]))
            flat = snap(es.ErrorsSummary.aggregate(sums))
            if two != want or flat != want:
                ctx.violation('aggregate-nested', 'aggregating page totals differs from aggregating the lines (or a second aggregation differs from the first)',
                              dict(group=grp, cut=cut), [two[0], flat[0]], want[0])
            if [snap(x) for x in sums] != before or snap(ag) != want:
                ctx.violation('aggregate-mutates', 'a later aggregation changed earlier summaries', dict(group=grp, cut=cut))
            if len(grp) >= 2:
                ctx.nontriv('aggregate')
            ctx.evaluations += 1
            # the same table from the model (Summary.confusions / aggregateConfusions)
            allids = ids_of(*[x for s, t in grp for x in (s, t)])
            names = {}
            for seq, idl in zip([x for s, t in grp for x in (s, t)], allids):
                for sym, i in zip(seq, idl):
                    names[i] = repr(sym)
            agg_reqs.append(dict(p='C13', op='aggconf', s=[], t=[], refs=allids[0::2], hyps=allids[1::2]))
            agg_impl.append((grp, got[1], names))
        except Exception as e:
            ctx.violation('aggregate-raises', 'aggregate raised %r' % (e,), dict(group=grp))

    # model vs implementation
    if ctx.driver_ok and agg_reqs:
        for r, (grp, table, names) in zip(common.Driver(ctx).batch(agg_reqs), agg_impl):
            m = r.get('ok', r.get('err'))
            if isinstance(m, list):
                bag = {}
                for h_, r_ in m:
                    key = (repr(None) if r_ is None else names[r_], repr(None) if h_ is None else names[h_])
                    bag[key] = bag.get(key, 0) + 1
                m = bag
            if m != table:
                ctx.disagree('C13.aggconf model != implementation', dict(group=grp), sorted(map(str, table.items())),
                             sorted(map(str, m.items())) if isinstance(m, dict) else m)
            else:
                ctx.traces_validated += 1
    if ctx.driver_ok:
        rep = common.Driver(ctx).batch(reqs)
        k = 0
        idx = 0
        for kind, s, t, c in cases:
            out = impl[idx]
            idx += 1
            for op in ('dist', 'align', 'path'):
                r = rep[k]
                k += 1
                m = r.get('ok', r.get('err'))
                got = out.get(op)
                if op == 'align' and isinstance(got, list):
                    si, ti = ids_of(s, t)
                    table = {}
                    for x, i in zip(list(s) + list(t), si + ti):
                        table[i] = x
                    m = [(None if a is None else table[a], None if b is None else table[b]) for a, b in m] if isinstance(m, list) else m
                    got = [tuple(p) for p in got]
                    m = [tuple(p) for p in m] if isinstance(m, list) else m
                if m != got:
                    ctx.disagree('C13.%s model != implementation' % op, dict(s=s, t=t, costs=list(c)), got, m)
                else:
                    ctx.traces_validated += 1
        while idx < len(impl):
            r = rep[k]
            k += 1
            out = impl[idx]
            idx += 1
            m = r.get('ok', r.get('err'))
            if isinstance(m, list) and isinstance(out['stats'], list):
                # model: (nphn, ncor, nins, ndel, nsub)
                if [m[2], m[3], m[4]] != out['stats']:
                    ctx.disagree('C13.stats model != implementation', reqs[k - 1], out['stats'], m)
                elif len(m) > 5 and m[5] != out.get('ending', m[5]):
                    ctx.disagree('C13.ending model != implementation (line-end class of the summary)', reqs[k - 1], out.get('ending'), m[5])
                else:
                    ctx.traces_validated += 1
        rep = common.Driver(ctx).batch(alsub_reqs)
        for r, (inp, al, s_, t_) in zip(rep, alsub_impl):
            m = r.get('ok', r.get('err'))
            si, ti = ids_of(s_, t_)
            table = {}
            for x, i in zip(list(s_) + list(t_), si + ti):
                table[i] = x
            if isinstance(m, list):
                m = [(None if a is None else table[a], None if b is None else table[b]) for a, b in m]
            if m != [tuple(p) for p in al]:
                ctx.disagree('C13.alignsub model != implementation', inp, al, m)
            else:
                ctx.traces_validated += 1
        rep = common.Driver(ctx).batch(sub_reqs)
        for r, got, q in zip(rep, sub_impl, sub_reqs):
            m = r.get('ok', r.get('err'))
            if m != got:
                ctx.disagree('C13.distsub model != implementation', q, got, m)
            else:
                ctx.traces_validated += 1
    else:
        ctx.notes.append('driver unavailable: correspondence skipped, oracle only')


def replay(data):
    sa, es = _imports()
    rc = 0
    for v in data.get('violations', []):
        inp = v['input']
        if 'costs' in inp:
            c = tuple(inp['costs'])
            got = py(sa.levenshtein_distance(list(inp['s']), list(inp['t']), *c))
            exp = ref_dist(inp['s'], inp['t'], c)
            print('replay', v['key'], inp, 'distance impl=%s optimum=%s' % (got, exp))
            try:
                print('   alignment impl=', sa.levenshtein_alignment(list(inp['s']), list(inp['t']), *c))
            except Exception as e:
                print('   alignment raised', repr(e))
            rc |= int(got != exp)
        elif 's' in inp:
            try:
                got = py(sa.levenshtein_distance_substring(list(inp['s']), list(inp['t'])))
            except Exception as e:
                got = repr(e)
            exp = ref_substring(inp['s'], inp['t'])
            print('replay', v['key'], inp, 'substring impl=%s optimum=%s' % (got, exp))
            rc |= int(got != exp)
    return rc
