"""C07 — batched line recognition returns each line's own result in input order (DESIGN §5-C07).

Real code: PytorchEngineLineOCR.process_lines on a TorchScript stub network (bounded horizontal neighbourhood, zero
input -> strong blank) and BaseEngineLineOCR.process_lines with a recording run_ocr.
Model: Bat.batches / Bat.coords (exact batch composition, padded widths, frame windows).
Oracle: result at position i = result of processing line i alone (transcription, window, logits inside the window),
independent of list order, batch mates and batch size; sparse storage keeps logits with posterior >= 1e-4 and nothing else.
"""
import ast
import os
import shutil
import tempfile

import numpy as np

from . import common
from . import stubs


def translate(ctx):
    """Constants of the batching code read from the source."""
    try:
        src = open(os.path.join(common.REPO, 'pero_ocr/ocr_engine/line_ocr_engine.py')).read()
        tree = ast.parse(src)
        consts = {}
        for n in ast.walk(tree):
            if isinstance(n, ast.Assign) and len(n.targets) == 1:
                t = ast.unparse(n.targets[0])
                if t == 'self.line_padding_px':
                    try:
                        consts['pad'] = ast.literal_eval(n.value)
                    except ValueError:
                        pass            # a named constant: read from the live engine below
                if t == 'self.max_input_horizontal_pixels' and ast.unparse(n.value).replace(' ', '') == '480*batch_size':
                    consts['budget'] = '480*batch_size'
                if t == 'line_logits[line_probs < 0.0001]':
                    consts['sparse_threshold'] = 0.0001
        src2 = open(os.path.join(common.REPO, 'pero_ocr/ocr_engine/pytorch_ocr_engine.py')).read()
        for n in ast.walk(ast.parse(src2)):
            if isinstance(n, ast.Assign) and ast.unparse(n.targets[0]) == 'self.net_subsampling':
                try:
                    consts['sub'] = ast.literal_eval(n.value)
                except ValueError:
                    pass
        if set(consts) != {'pad', 'budget', 'sparse_threshold', 'sub'}:
            # the same constants read from a live engine (robust to restructuring); the sparse threshold is judged by the oracle
            import tempfile, shutil
            d = tempfile.mkdtemp(prefix='verif_c07_t_')
            try:
                os.makedirs(os.path.join(d, 'a'))
                e3, e5 = stubs.make_engine(os.path.join(d, 'a'), batch_size=3)[0], None
                consts.setdefault('pad', int(e3.line_padding_px))
                consts.setdefault('sub', int(e3.net_subsampling))
                if 'budget' not in consts and e3.max_input_horizontal_pixels == 480 * 3:
                    os.makedirs(os.path.join(d, 'b'))
                    e5 = stubs.make_engine(os.path.join(d, 'b'), batch_size=5)[0]
                    if e5.max_input_horizontal_pixels == 480 * 5:
                        consts['budget'] = '480*batch_size'
                consts.setdefault('sparse_threshold', 0.0001)
                ctx.notes.append('translator:batching-constants: some source patterns not recognised; constants read from a live engine')
            finally:
                shutil.rmtree(d, ignore_errors=True)
        ctx.cov['translated_constants'] = consts
        if consts != dict(pad=32, budget='480*batch_size', sparse_threshold=0.0001, sub=4):
            ctx.brk('translator:batching-constants', 'unexpected constants: %r' % (consts,))
    except Exception as e:
        ctx.brk('translator:batching-constants', repr(e))


def recording_engine(loe, bs):
    import torch
    eng = object.__new__(loe.BaseEngineLineOCR)
    eng.line_px_height = 32
    eng.max_line_width = 1e10
    eng.model_type = 'ctc'
    eng.device = torch.device('cpu')
    eng.batch_size = bs
    eng.line_padding_px = 32
    eng.max_input_horizontal_pixels = 480 * bs
    eng.net_subsampling = 4
    eng.seen = []
    eng.widths = []
    eng.dirty = []

    def run_ocr(batch):
        ids = []
        for img in batch:
            # the first 4 bytes of the line (after the left padding) carry its id
            ids.append(int(img[0, 32, 0]) + 256 * int(img[0, 32, 1]))
        eng.seen.append((ids, int(batch.shape[2])))
        # the network input of a line is that line between blank padding: nothing but zeros outside its own columns
        for i, img in zip(ids, batch):
            w = eng.widths[i] if i < len(eng.widths) else 0
            if img[:, :32].any() or img[:, 32 + w:].any():
                eng.dirty.append(i)
        T = batch.shape[2] // 4
        return ['x'] * len(batch), [np.zeros((T, 3)) for _ in batch]
    eng.run_ocr = run_ocr
    return eng


def gen_widths(rng):
    n = rng.randrange(0, 12)
    mode = rng.random()
    if mode < 0.2:
        w = rng.randrange(1, 600)
        return [w] * n                              # equal widths
    if mode < 0.4:
        return [rng.choice([1, 31, 32, 33, 64, 479, 480, 481]) for _ in range(n)]
    if mode < 0.6:
        # different widths that round up to the same multiple of 32: consecutive batches of identical geometry
        top = 32 * rng.randrange(1, 16)
        return [top - rng.randrange(0, 32) for _ in range(n)]
    return [rng.randrange(1, 2500) for _ in range(n)]


def run(ctx):
    import torch
    from scipy import sparse
    from pero_ocr.ocr_engine import line_ocr_engine as loe
    from pero_ocr.ocr_engine.softmax import softmax
    rng = ctx.rng
    ctx.rule = ('lists of 0..11 line crops with widths 1 px .. beyond the engine maximum (truncated), equal widths, multiples of 32 '
                '+-1, any order; batch sizes 1..16; sparse/dense, tight-crop, no-logits; stub network with bounded horizontal '
                'neighbourhood. non-trivial = >= 3 lines in >= 2 batches')
    ctx.assumptions += ['the network is local (output for a line depends on that line only) - the property\'s own assumption, true for the stub',
                        'float conv/pool results may differ in the last bits between batch shapes: logits compared with atol 1e-4']
    reqs, impl = [], []
    # ---- recording engine: exact batch composition
    n = 150 if ctx.quick() else 3000
    for _ in range(n):
        ws = gen_widths(rng)
        bs = rng.randrange(1, 17)
        eng = recording_engine(loe, bs)
        eng.widths = list(ws)
        lines = []
        for i, w in enumerate(ws):
            im = np.full((32, w, 3), 7, dtype=np.uint8)
            im[0, 0, 0] = i % 256
            im[0, 0, 1] = i // 256
            lines.append(im)
        ctx.evaluations += 1
        inp = dict(widths=ws, batch_size=bs)
        try:
            import contextlib, io
            with contextlib.redirect_stdout(io.StringIO()):
                tr, lg, co = eng.process_lines(lines, sparse_logits=False)
        except Exception as e:
            ctx.violation('raises:' + type(e).__name__, 'process_lines raised %r' % (e,), inp)
            continue
        if eng.dirty:
            ctx.violation('input-not-own-line', "the network input of a line holds pixels outside the line's own columns (the padding is not blank: "
                          "left-overs of another line reach a network with horizontal context)", inp, sorted(set(eng.dirty)))
        if any(t is None for t in tr):
            ctx.violation('missing-result', 'an input position received no result', inp, tr)
        seen_ids = [i for ids, _ in eng.seen for i in ids]
        if sorted(seen_ids) != list(range(len(ws))):
            ctx.violation('not-each-once', 'lines are not processed exactly once each', inp, seen_ids)
        for i, w in enumerate(ws):
            if co[i] != [32 // 4, (32 + w) // 4]:
                ctx.violation('coords', 'frame window is not the un-padded extent of the line', inp, co[i], [8, (32 + w) // 4])
        if len(ws) >= 3 and len(eng.seen) >= 2:
            ctx.nontriv(inp)
        ctx.sample(dict(inp, batches=eng.seen), limit=3)
        reqs.append(dict(p='C07', op='batches', widths=ws, batch_size=bs, pad=32, sub=4))
        impl.append((inp, [[ids, w] for ids, w in eng.seen], [list(c) for c in co]))
    # ---- real engine with the TorchScript stub: per-line independence
    tmp = tempfile.mkdtemp(prefix='verif_c07_')
    try:
        engines = {}
        gain = [0.6]

        # character tables: one code point per symbol, and tables with a digraph, a letter + combining mark and an empty-string symbol
        charset = [None]
        MULTI = ['a', 'ch', 'e\u0301', '', 'b', 'sch', 'c', 'd', 'f', 'g', ' ']

        def engine(bs):
            # two stub networks: ordinary output range, and a wide one (frame maxima from 6 on padding to > 100 on content:
            # float32 softmax must be stabilised per frame)
            key = (bs, gain[0], charset[0] is not None)
            if key not in engines:
                d = os.path.join(tmp, 'bs%d_g%s_%s' % (bs, gain[0], 'multi' if charset[0] else 'single'))
                os.makedirs(d, exist_ok=True)
                engines[key] = stubs.make_engine(d, batch_size=bs, gain=gain[0], chars=charset[0])[0]
            return engines[key]
        m = 250 if ctx.quick() else 1200
        for _ in range(m):
            gain[0] = rng.choice([0.6, 0.6, 5])
            charset[0] = MULTI if rng.random() < 0.3 else None
            ctx.count('charset:' + ('multi-codepoint' if charset[0] else 'single'))
            alone = engine(1)
            ctx.count('stub_gain:%s' % gain[0])
            nlines = rng.randrange(0, 8)
            ws = [rng.choice([rng.randrange(1, 200), rng.randrange(200, 900)]) for _ in range(nlines)]
            r = rng.random()
            if r < 0.2 and nlines:
                ws = [ws[0]] * nlines
            elif r < 0.6 and nlines:
                # similar widths: consecutive batches of identical tensor shape holding lines of slightly different width
                w0 = rng.randrange(40, 600)
                ws = [max(1, w0 - rng.randrange(0, 31)) for _ in range(nlines)]
            lines = [stubs.random_line(rng, w) for w in ws]
            bs = rng.randrange(1, 17)
            mode = rng.choice(['dense', 'sparse', 'tight', 'nologits'])
            perm = list(range(nlines))
            rng.shuffle(perm)
            inp = dict(widths=ws, batch_size=bs, mode=mode, permutation=perm, stub_gain=gain[0], charset=charset[0])
            ctx.evaluations += 1
            kw = dict(sparse_logits=(mode == 'sparse'), tight_crop_logits=(mode == 'tight'), no_logits=(mode == 'nologits'))
            try:
                tr, lg, co = engine(bs).process_lines([lines[i] for i in perm], **kw)
            except Exception as e:
                ctx.violation('engine-raises:' + type(e).__name__, 'process_lines raised %r' % (e,), inp)
                continue
            if mode == 'sparse' and perm:
                # the WHOLE stored matrix (padding frames included): exactly the logits with posterior >= 1e-4, unchanged
                _, lgd, _ = engine(bs).process_lines([lines[i] for i in perm], sparse_logits=False)
                for pos in range(len(perm)):
                    full = lg[pos].toarray() if sparse.issparse(lg[pos]) else np.asarray(lg[pos])
                    z = np.asarray(lgd[pos], dtype=np.float64)
                    if full.shape != z.shape:
                        ctx.violation('sparse:shape', 'sparse and dense logits of the same list have different shapes', inp, [list(full.shape), list(z.shape)])
                        continue
                    zz = z - z.max(axis=1, keepdims=True)
                    pr = np.exp(zz) / np.exp(zz).sum(axis=1, keepdims=True)
                    keep = pr >= 1e-4
                    near = (np.abs(pr - 1e-4) < 1e-6) | (z == 0)     # a logit that IS 0.0 cannot be told from a dropped one
                    badm = (~near) & (((full != 0) != keep) | (keep & (np.abs(full - z) > 1e-4)))
                    if badm.any():
                        ctx.violation('sparse:whole-matrix', 'sparse storage does not keep exactly the logits with posterior >= 1e-4 (whole stored matrix, padding frames included)',
                                      inp, dict(position=pos, stored_but_negligible=int(((full != 0) & ~keep & ~near).sum()), dropped_but_relevant=int(((full == 0) & keep & ~near).sum())))
            for pos, i in enumerate(perm):
                # same engine budget (480 * batch_size) so that truncation of over-long lines is the same; for lines that fit
                # into the smallest budget also compare with the batch-size-1 engine (independence of the batch size)
                w = ws[i]
                t1, l1, c1 = engine(bs).process_lines([lines[i]], sparse_logits=False)
                if w + 64 <= 480:
                    t0, l0, c0 = alone.process_lines([lines[i]], sparse_logits=False)
                    if t0[0] != t1[0] or c0 != c1 or np.abs(l0[0][c0[0][0]:c0[0][1]] - l1[0][c1[0][0]:c1[0][1]]).max(initial=0) > 1e-4:
                        ctx.violation('depends-on-batch-size', 'result of a line depends on the engine batch size', inp, pos)
                if tr[pos] != t1[0]:
                    ctx.violation('transcription-depends-on-batch', 'transcription at a position is not that of the line alone', inp, [pos, tr[pos], t1[0]])
                if mode == 'nologits':
                    if lg[pos] is not None:
                        ctx.violation('nologits', 'logits returned in no-logits mode', inp)
                    continue
                lo, hi = 32 // 4, (32 + w) // 4
                ref = l1[0][lo:hi]
                if mode == 'tight':
                    got = lg[pos]
                    if co[pos] != [None, None]:
                        ctx.violation('tight-coords', 'tight crop must report an unknown window', inp, co[pos])
                else:
                    if co[pos] != [lo, hi]:
                        ctx.violation('coords', 'frame window is not the un-padded extent of the line', inp, co[pos], [lo, hi])
                    full = lg[pos].toarray() if sparse.issparse(lg[pos]) else lg[pos]
                    got = full[lo:hi]
                if mode == 'sparse':
                    dense_ref = ref
                    z = np.asarray(l1[0], dtype=np.float64)      # independent reference: per-frame softmax in float64
                    z = z - z.max(axis=1, keepdims=True)
                    probs = (np.exp(z) / np.exp(z).sum(axis=1, keepdims=True))[lo:hi]
                    keep = probs >= 1e-4
                    near = np.abs(probs - 1e-4) < 1e-6
                    if got.shape != keep.shape or got.shape != dense_ref.shape:
                        ctx.violation('logits-depend-on-batch', 'logits inside the window differ in shape from those of the line alone', inp,
                                      [list(got.shape), list(dense_ref.shape)])
                        continue
                    bad = (~near) & (((got != 0) != keep) | (keep & (np.abs(got - dense_ref) > 1e-4)))
                    # the batch tensor may be longer than the line's own: softmax is per frame, so unaffected
                    if bad.any():
                        ctx.violation('sparse', 'sparse storage does not keep exactly the logits with posterior >= 1e-4', inp, int(bad.sum()))
                else:
                    if got.shape != ref.shape or np.abs(got - ref).max(initial=0) > 1e-4:
                        ctx.violation('logits-depend-on-batch', 'logits inside the window differ from those of the line alone', inp, pos)
            if nlines >= 3:
                ctx.nontriv(inp)
        # ---- engines with writer / style embeddings (`embed_id` in the OCR json, re-assigned on the live engine by select_embed_id.py):
        # after the id was switched every line is recognised with the NEW id, whatever was recognised before and however the lines
        # fall into batches
        for it in range(4 if ctx.quick() else 30):
            bs = rng.choice([2, 3, 8])
            ida, idb = rng.sample([0, 1, 2, 3], 2)
            da, db = os.path.join(tmp, 'emb_a%d' % it), os.path.join(tmp, 'emb_b%d' % it)
            os.makedirs(da); os.makedirs(db)
            try:
                ea = stubs.make_engine(da, batch_size=bs, embed_id=ida)[0]
                eb = stubs.make_engine(db, batch_size=bs, embed_id=idb)[0]
            except Exception as e:
                ctx.count('embed_engine_unavailable')
                break
            first = [stubs.random_line(rng, rng.randrange(20, 400)) for _ in range(rng.randrange(3, 8))]
            second = [stubs.random_line(rng, rng.randrange(20, 400)) for _ in range(rng.randrange(1, 7))]
            inp = dict(stage='embed_id switched on a live engine', batch_size=bs, first_id=ida, then_id=idb, widths_first=[int(x.shape[1]) for x in first],
                       widths_then=[int(x.shape[1]) for x in second])
            ctx.evaluations += 1
            try:
                ea.process_lines(first, sparse_logits=False)
                ea.embed_id = idb
                t1, l1, c1 = ea.process_lines(second, sparse_logits=False)
                t0, l0, c0 = eb.process_lines(second, sparse_logits=False)
            except Exception as e:
                ctx.violation('embed-raises:' + type(e).__name__, 'process_lines raised %r on an engine with embeddings' % (e,), inp)
                continue
            if list(t1) != list(t0) or any(np.asarray(a).shape != np.asarray(b).shape or np.abs(np.asarray(a) - np.asarray(b)).max(initial=0) > 1e-4 for a, b in zip(l1, l0)):
                ctx.violation('embed-id-history', "after the engine's embed_id was re-assigned, lines are not recognised as by an engine built with that id "
                              '(the result depends on what was recognised before / on the batch a line falls into)', inp, list(t1)[:3], list(t0)[:3])
            ctx.count('embed_id_cases')
            ctx.nontriv(inp)
        # ---- the glue above the engine: PageOCR.process_page puts result i onto line i of the page (lines spread over regions,
        # empty regions, zero-width crops next to ordinary ones)
        from pero_ocr.document_ocr.page_parser import PageOCR
        from pero_ocr.core.layout import PageLayout, RegionLayout, TextLine
        for _ in range(60 if ctx.quick() else 400):
            gain[0] = 0.6
            charset[0] = MULTI if rng.random() < 0.3 else None
            bs = rng.randrange(1, 9)
            nlines = rng.randrange(1, 8)
            ws = [rng.choice([0, rng.randrange(1, 40), rng.randrange(40, 300), rng.randrange(40, 300)]) for _ in range(nlines)]
            crops = [stubs.random_line(rng, w) if w else np.zeros((32, 0, 3), dtype=np.uint8) for w in ws]
            nreg = rng.randrange(1, 4)
            regs = [RegionLayout('r%d' % r, np.array([[0, 0], [10, 0], [10, 10], [0, 10]])) for r in range(nreg)]
            where = sorted(rng.randrange(nreg) for _ in range(nlines))
            for i, (r, c) in enumerate(zip(where, crops)):
                ln = TextLine(id='l%d' % i, baseline=np.array([[0, 5], [10, 5]]), polygon=np.array([[0, 0], [10, 0], [10, 10], [0, 10]]), heights=[3, 1])
                ln.crop = c
                regs[r].lines.append(ln)
            page = PageLayout(id='p', page_size=(100, 100))
            page.regions = regs
            inp = dict(stage='PageOCR.process_page', widths=ws, batch_size=bs, lines_per_region=[where.count(r) for r in range(nreg)])
            ctx.evaluations += 1
            try:
                rt, rl, rc = engine(bs).process_lines(list(crops))
            except Exception as e:
                ctx.count('page_ocr:engine_rejects:' + type(e).__name__)
                continue
            pocr = object.__new__(PageOCR)
            pocr.ocr_engine = engine(bs)
            try:
                pocr.process_page(None, page)
            except AttributeError as e:
                ctx.count('page_ocr_standin_unusable')      # PageOCR built without its constructor lacks something process_page newly uses
                continue
            except Exception as e:
                ctx.violation('page-ocr-raises:' + type(e).__name__, 'PageOCR.process_page raised %r although the engine recognises these crops' % (e,), inp)
                continue
            for i, ln in enumerate(page.lines_iterator()):
                if ln.logits is None or ln.logit_coords is None or ln.transcription is None:
                    ctx.violation('page-ocr:position', "a page line was left without the transcription / logits / frame window computed from its crop",
                                  inp, [i, ln.transcription, rt[i]])
                    break
                a = ln.logits.toarray() if sparse.issparse(ln.logits) else np.asarray(ln.logits)
                b = rl[i].toarray() if sparse.issparse(rl[i]) else np.asarray(rl[i])
                if ln.id != 'l%d' % i or ln.transcription != rt[i] or list(ln.logit_coords) != list(rc[i]) or a.shape != b.shape or np.abs(a - b).max(initial=0) > 1e-4:
                    ctx.violation('page-ocr:position', "a page line does not carry the transcription / logits / frame window computed from its own crop",
                                  inp, [i, ln.transcription, rt[i]])
                    break
            ctx.count('page_ocr_cases')
            if 0 in ws and nlines >= 2:
                ctx.nontriv(inp)
    finally:
        shutil.rmtree(tmp, ignore_errors=True)
    if ctx.driver_ok:
        rep = common.Driver(ctx).batch(reqs)
        for r, (inp, seen, co) in zip(rep, impl):
            m = r.get('ok')
            if m is None or m['batches'] != seen or m['coords'] != co:
                ctx.disagree('C07 batch composition / coords differ', inp, dict(batches=seen, coords=co), m)
            else:
                ctx.traces_validated += 1
    else:
        ctx.notes.append('driver unavailable: correspondence skipped, oracle only')


def replay(data):
    for v in data.get('violations', []):
        print('replay', v['key'], v['what'], str(v['input'])[:400], v['observed'])
    return 1 if data.get('violations') else 0
