"""Entry point: python -m harness.run_check Cxx quick|thorough [--replay file]"""
import importlib
import json
import os
import sys
import traceback

from . import common


def main(argv):
    if len(argv) < 2:
        print('usage: check Cxx quick|thorough [--replay file]')
        return 2
    pid = argv[0]
    tier = argv[1] if argv[1] in ('quick', 'thorough') else os.environ.get('VERIF_TIER', 'quick')
    seed = int(os.environ.get('VERIF_SEED', '0') or 0)
    try:
        mod = importlib.import_module('harness.' + pid.lower())
    except ImportError as e:
        print('no harness for', pid, e)
        return 2
    if '--replay' in argv:
        path = argv[argv.index('--replay') + 1]
        data = json.load(open(path if os.path.isabs(path) else os.path.join(common.VERIF, path)))
        return mod.replay(data)
    ctx = common.Ctx(pid, tier, seed)
    try:
        if hasattr(mod, 'translate'):
            mod.translate(ctx)
        common.prove(ctx, modules=getattr(mod, 'LEAN_MODULES', None), clean=(tier == 'thorough'))
        # the implementation under test prints warnings/progress: keep stdout for the verdict lines only
        import contextlib, io
        with contextlib.redirect_stdout(io.StringIO()), contextlib.redirect_stderr(io.StringIO()):
            mod.run(ctx)
        return common.finish(ctx)
    except Exception:
        traceback.print_exc()
        print('INFRASTRUCTURE-ERROR property=%s' % pid)
        return 2


if __name__ == '__main__':
    sys.exit(main(sys.argv[1:]))
