"""Entry point: python -m harness.run_check Cxx quick|thorough [--replay file]"""
import importlib
import json
import os
import sys
import traceback

from . import common


def _worker(pid, tier, seed, i, driver_ok):
    import contextlib, io, random
    try:
        mod = importlib.import_module('harness.' + pid.lower())
        ctx = common.Ctx(pid, tier, seed)
        ctx.rng = random.Random((seed * 1000003 + int(pid[1:])) * 7919 + i)
        ctx.driver_ok = driver_ok
        ctx.stream = i
        with contextlib.redirect_stdout(io.StringIO()), contextlib.redirect_stderr(io.StringIO()):
            mod.run(ctx)
        return common.export(ctx)
    except Exception:
        return {'error': traceback.format_exc()}


def main(argv):
    if len(argv) < 2:
        print('usage: check Cxx quick|thorough [--replay file]')
        return 2
    pid = argv[0]
    tier = argv[1] if argv[1] in ('quick', 'thorough') else os.environ.get('VERIF_TIER', 'quick')
    seed = int(os.environ.get('VERIF_SEED', '0') or 0)
    try:
        mod = importlib.import_module('harness.' + pid.lower())
    except ImportError as e:
        print('no harness for', pid, e)
        return 2
    if '--replay' in argv:
        path = argv[argv.index('--replay') + 1]
        data = json.load(open(path if os.path.isabs(path) else os.path.join(common.VERIF, path)))
        return mod.replay(data)
    ctx = common.Ctx(pid, tier, seed)
    # the implementation logs (and swallows) per-line failures: keep them off the terminal; harnesses that care attach a handler
    import logging
    logging.lastResort = None
    logging.getLogger().addHandler(logging.NullHandler())
    try:
        if hasattr(mod, 'translate'):
            mod.translate(ctx)
        common.prove(ctx, modules=getattr(mod, 'LEAN_MODULES', None), clean=(tier == 'thorough'))
        # the implementation under test prints warnings/progress: keep stdout for the verdict lines only
        import contextlib, io
        workers = int(os.environ.get('VERIF_WORKERS', '0') or 0) or (1 if tier == 'quick' else 8)
        futs = []
        pool = None
        if workers > 1:
            # thorough tier: the same exploration from `workers` independent PRNG streams, in parallel processes.
            # worker 0 (this process) keeps the stream of the given seed, so a replay by seed stays valid.
            import concurrent.futures, multiprocessing
            pool = concurrent.futures.ProcessPoolExecutor(max_workers=workers - 1, mp_context=multiprocessing.get_context('fork'))
            futs = [pool.submit(_worker, pid, tier, seed, i, ctx.driver_ok) for i in range(1, workers)]
        with contextlib.redirect_stdout(io.StringIO()), contextlib.redirect_stderr(io.StringIO()):
            mod.run(ctx)
        for i, f in enumerate(futs, 1):
            res = f.result()
            if 'error' in res:
                print(res['error'])
                print('INFRASTRUCTURE-ERROR property=%s (worker %d)' % (pid, i))
                return 2
            common.merge(ctx, res)
        if pool is not None:
            pool.shutdown()
            ctx.cov['parallel_streams'] = workers
        return common.finish(ctx)
    except Exception:
        traceback.print_exc()
        print('INFRASTRUCTURE-ERROR property=%s' % pid)
        return 2


if __name__ == '__main__':
    sys.exit(main(sys.argv[1:]))
