"""Stub pipeline pieces built at run time (nothing is stored under /tmp permanently):
* a tiny TorchScript OCR network with a bounded horizontal receptive field (conv 3 wide + stride-4 pooling),
  whose response to an all-zero (padding) neighbourhood is a strong blank;
* the ocr.json / config.ini that drive the REAL PytorchEngineLineOCR / PageParser / parse_folder on CPU.
"""
import json
import os

import numpy as np

CHARS = list('abcdefghij ')


def build_stub_net(path_cpu, n_chars, height=32, seed=0, gain=0.6, pad_class=-1, global_ctx=0.0, with_ids=False):
    import torch
    from torch import nn

    class Net(nn.Module):
        def __init__(self):
            super().__init__()
            g = torch.Generator().manual_seed(seed)
            self.conv = nn.Conv2d(3, n_chars + 1, (height, 3), padding=(0, 1))
            with torch.no_grad():
                self.conv.weight.copy_(torch.randn(self.conv.weight.shape, generator=g) * gain)
                b = torch.zeros(n_chars + 1)
                if pad_class != -2:
                    b[pad_class] = 6.0    # zero input (padding) -> strong blank (pad_class=-1) or, for C04, a strong character
                self.conv.bias.copy_(b)
            self.pool = nn.AvgPool1d(4)
            self.alternate = (pad_class == -2)   # C04: padding answers with two characters in turn (frame parity)
            self.global_ctx = float(global_ctx)  # C08: a network with global context: its answer depends on the padded width of the batch

        def forward(self, x):
            y = self.conv(x)          # N, C, 1, W
            y = y.squeeze(2)
            y = self.pool(y)          # N, C, W/4
            if self.global_ctx != 0.0:
                ctxb = torch.zeros_like(y)
                ctxb[:, 0, :] = self.global_ctx * float(y.shape[2])
                y = y + ctxb
            if self.alternate:
                par = (torch.arange(y.shape[2]) % 2).to(y.dtype)
                bump = torch.zeros_like(y)
                bump[:, 0, :] = 6.0 * (1.0 - par)
                bump[:, 1, :] = 6.0 * par
                y = y + bump
            return y

    class NetIds(nn.Module):
        # a network with writer / style embeddings: forward(x, ids) - the id of the batch row shifts the answer
        def __init__(self):
            super().__init__()
            self.inner = Net()

        def forward(self, x, ids):
            y = self.inner(x)
            bump = torch.zeros_like(y)
            bump[:, 1, :] = 3.0 * ids.to(y.dtype).unsqueeze(1)
            return y + bump

    net = (NetIds() if with_ids else Net()).eval()
    scripted = torch.jit.script(net)
    scripted.save(path_cpu)
    return net


def write_ocr_json(dirname, n_chars=None, height=32, seed=0, gain=0.6, pad_class=-1, chars=None, global_ctx=0.0, embed_id=None):
    chars = list(chars) if chars is not None else (CHARS if n_chars is None else CHARS[:n_chars])
    ck = os.path.join(dirname, 'stub.pt')
    build_stub_net(ck + '.cpu', len(chars), height=height, seed=seed, gain=gain, pad_class=pad_class, global_ctx=global_ctx, with_ids=embed_id is not None)
    cfg = dict(line_px_height=height, line_vertical_scale=1.0, checkpoint='stub.pt', characters=chars, net_name='stub')
    if embed_id is not None:
        cfg['embed_id'] = embed_id
    p = os.path.join(dirname, 'ocr.json')
    with open(p, 'w', encoding='utf8') as f:
        json.dump(cfg, f)
    return p, chars


def make_engine(dirname, batch_size=8, height=32, seed=0, gain=0.6, pad_class=-1, chars=None, global_ctx=0.0, embed_id=None):
    import torch
    from pero_ocr.ocr_engine.pytorch_ocr_engine import PytorchEngineLineOCR
    p, chars = write_ocr_json(dirname, height=height, seed=seed, gain=gain, pad_class=pad_class, chars=chars, global_ctx=global_ctx, embed_id=embed_id)
    return PytorchEngineLineOCR(p, torch.device('cpu'), batch_size=batch_size), chars


def random_line(rng, width, height=32):
    """A line crop with a few dark 'strokes' on a noisy background (uint8, H x W x 3)."""
    r = np.random.RandomState(rng.randrange(2 ** 31))
    img = r.randint(0, 256, size=(height, width, 3)).astype(np.uint8)
    return img


# ---------------------------------------------------------------------------------------------
# a whole batch for parse_folder: config.ini, images, PAGE XML inputs
# ---------------------------------------------------------------------------------------------

def build_batch(root, rng, page_ids, with_decoder=False):
    """Writes root/{config.ini, ocr.json, stub.pt.cpu, img/*.png, xml/*.xml}; returns the config path."""
    import cv2
    from pero_ocr.core.layout import PageLayout, RegionLayout, TextLine
    os.makedirs(os.path.join(root, 'img'), exist_ok=True)
    os.makedirs(os.path.join(root, 'xml'), exist_ok=True)
    write_ocr_json(root)
    cfg = ['[PAGE_PARSER]', 'RUN_LAYOUT_PARSER = no', 'RUN_LINE_CROPPER = yes', 'RUN_OCR = yes', 'RUN_DECODER = no', '',
           '[LINE_CROPPER]', 'INTERP = 1', 'LINE_SCALE = 1', 'LINE_HEIGHT = 32', '',
           '[OCR]', 'OCR_JSON = ./ocr.json', 'USE_CPU = yes', '']
    with open(os.path.join(root, 'config.ini'), 'w') as f:
        f.write('\n'.join(cfg))
    r = np.random.RandomState(rng.randrange(2 ** 31))
    for k, pid in enumerate(page_ids):
        img = r.randint(0, 256, size=(260, 420, 3)).astype(np.uint8)
        cv2.imwrite(os.path.join(root, 'img', pid + '.png'), img)
        pl = PageLayout(id=pid, page_size=(260, 420))
        reg = RegionLayout('r1', np.array([[5, 5], [415, 5], [415, 255], [5, 255]]))
        for li in range(0 if pid.startswith('empty') else 1 + (k % 3)):      # page ids starting with 'empty': a sheet without text lines
            y = 50 + 60 * li
            reg.lines.append(TextLine(id='r1-l%03d' % li, baseline=np.array([[20, y], [200 + 60 * li, y]]),
                                      polygon=np.array([[20, y - 22], [200 + 60 * li, y - 22], [200 + 60 * li, y + 9], [20, y + 9]]),
                                      heights=[22, 9]))
        pl.regions.append(reg)
        pl.to_pagexml(os.path.join(root, 'xml', pid + '.xml'))
    return os.path.join(root, 'config.ini')
