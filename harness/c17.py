"""C17 — resuming an interrupted batch completes every requested output (DESIGN §5-C17).

The REAL user_scripts/parse_folder.py main() runs in-process on a stub pipeline (tiny TorchScript engine, three pages
with dotted ids such as 'a.xml.b').  A wrapper raises a BaseException subclass immediately BEFORE the k-th
file-creating call (open(..., 'w'|'wb'), cv2.imwrite) inside an output folder: it passes through both `except`
clauses of Computator.__call__ like a kill between two writes.  Every crash point, subsets of output kinds,
sequences of crashes and resumes; the Lean model predicts the directory contents after every step.
"""
import ast
import builtins
import contextlib
import importlib.util
import io
import itertools
import os
import re
import shutil
import sys
import tempfile

from . import common
from . import stubs

KINDS = ['xml', 'render', 'logits', 'alto', 'lines']
FLAG = {'xml': '--output-xml-path', 'render': '--output-render-path', 'logits': '--output-logit-path',
        'alto': '--output-alto-path', 'lines': '--output-line-path', 'lmdb': '--output-line-path'}     # 'lmdb': line crops into an LMDB (path contains 'lmdb')
PAGES = ['p1', 'a.xml.b', 'c.d']


class Kill(BaseException):
    pass


class Injector:
    def __init__(self, root):
        self.root = root
        self.count = 0
        self.kill_at = None
        self.log = []
        self.processed = []

    def hit(self, path):
        p = str(path)
        if not p.startswith(os.path.join(self.root, 'o_')):
            return
        self.count += 1
        if self.kill_at is not None and self.count == self.kill_at:
            raise Kill()
        self.log.append(os.path.relpath(p, self.root))


def load_pf():
    spec = importlib.util.spec_from_file_location('parse_folder_verif', os.path.join(common.REPO, 'user_scripts', 'parse_folder.py'))
    m = importlib.util.module_from_spec(spec)
    sys.modules['parse_folder_verif'] = m     # so that multiprocessing can pickle Computator by reference
    spec.loader.exec_module(m)
    return m


class Bench:
    def __init__(self, ctx, pages=None, ocr=True):
        import cv2
        self.cv2 = cv2
        self.root = tempfile.mkdtemp(prefix='verif_c17_')
        self.cfg = stubs.build_batch(self.root, ctx.rng, pages or PAGES)
        if not ocr:
            # model-free pipeline (layout from the input PAGE XML + line cropping): what --process-count > 1 can run
            txt = open(self.cfg).read().replace('RUN_OCR = yes', 'RUN_OCR = no')
            open(self.cfg, 'w').write(txt)
        self.pf = load_pf()
        self.inj = Injector(self.root)
        self._open = builtins.open
        self._imwrite = cv2.imwrite

    def __enter__(self):
        inj = self.inj
        _open, _imwrite = self._open, self._imwrite

        def open_(f, mode='r', *a, **k):
            if isinstance(f, (str, os.PathLike)) and ('w' in mode):
                inj.hit(f)
            return _open(f, mode, *a, **k)

        def imwrite_(f, *a, **k):
            inj.hit(f)
            return _imwrite(f, *a, **k)
        builtins.open = open_
        self.cv2.imwrite = imwrite_
        return self

    def __exit__(self, *a):
        builtins.open = self._open
        self.cv2.imwrite = self._imwrite
        shutil.rmtree(self.root, ignore_errors=True)

    def outdir(self, k):
        return os.path.join(self.root, 'o_' + k)

    def clean(self):
        for k in KINDS + ['lmdb']:
            shutil.rmtree(self.outdir(k), ignore_errors=True)

    def run(self, kinds, skip=True, kill_at=None, process_count=None):
        self.inj.count = 0
        self.inj.kill_at = kill_at
        self.inj.log = []
        argv = ['parse_folder.py', '-c', self.cfg, '-i', os.path.join(self.root, 'img'), '-x', os.path.join(self.root, 'xml'), '--device', 'cpu']
        for k in kinds:
            argv += [FLAG[k], self.outdir(k)]
        if skip:
            argv.append('-s')
        if process_count:
            argv += ['--process-count', str(process_count)]
        old = sys.argv
        sys.argv = argv
        buf = io.StringIO()
        try:
            with contextlib.redirect_stdout(buf), contextlib.redirect_stderr(buf):
                self.pf.main()
            res = 'ok'
        except Kill:
            res = 'killed'
        except SystemExit as e:
            res = 'exit:%s' % (e.code,)
        except BaseException as e:
            res = 'EXC:' + type(e).__name__
        finally:
            sys.argv = old
        self.processed = re.findall(r'^Processing (.+)$', buf.getvalue(), re.M)
        return res

    def run_parallel(self, kinds, process_count, timeout=600):
        """An uninterrupted resume with several workers, in a FRESH interpreter (parse_folder forks its pool; forking from the
        check's own process - threads of the executor, torch already initialised - can deadlock the children)."""
        import subprocess
        argv = [sys.executable, os.path.join(common.REPO, 'user_scripts', 'parse_folder.py'), '-c', self.cfg, '-i', os.path.join(self.root, 'img'),
                '-x', os.path.join(self.root, 'xml'), '--device', 'cpu', '-s', '--process-count', str(process_count)]
        for k in kinds:
            argv += [FLAG[k], self.outdir(k)]
        env = dict(os.environ, PYTHONPATH=common.REPO + os.pathsep + os.environ.get('PYTHONPATH', ''))
        try:
            p = subprocess.run(argv, stdout=subprocess.PIPE, stderr=subprocess.STDOUT, text=True, timeout=timeout, env=env)
        except subprocess.TimeoutExpired:
            self.processed = []
            return 'timeout'
        self.processed = re.findall(r'^Processing (.+)$', p.stdout, re.M)
        return 'ok' if p.returncode == 0 else 'exit:%s' % p.returncode

    def _lmdb_records(self):
        import lmdb
        d = self.outdir('lmdb')
        if not os.path.isdir(d):
            return {}
        env = lmdb.open(d, readonly=True, lock=False)
        try:
            with env.begin() as txn:
                return {k.decode(): bytes(v) for k, v in txn.cursor()}
        finally:
            env.close()

    def listing(self, kinds):
        out = {}
        for k in kinds:
            if k == 'lmdb':
                out[k] = sorted(self._lmdb_records())
                continue
            d = self.outdir(k)
            out[k] = sorted(os.listdir(d)) if os.path.isdir(d) else []
        return out

    def contents(self, kinds):
        out = {}
        for k in kinds:
            if k == 'lmdb':
                for name, data in self._lmdb_records().items():
                    out['lmdb/' + name] = data
                continue
            d = self.outdir(k)
            for f in (sorted(os.listdir(d)) if os.path.isdir(d) else []):
                data = self._open(os.path.join(d, f), 'rb').read()
                if f.endswith('.xml'):
                    data = re.sub(rb'<(Created|LastChange|processingDateTime)>[^<]*</', rb'<\1></', data)
                out[k + '/' + f] = data
        return out


def dynamic_facts(ctx):
    """The same four facts read from the BEHAVIOUR of the real main() on the stub pipeline (used when the source patterns are
    not recognised, e.g. after a refactoring): which output folders a resume lists, how a page id is recovered from an output
    file name, in which order a page's outputs are written, whether a run with nothing to do exits cleanly."""
    with Bench(ctx) as b:
        b.clean()
        if b.run(KINDS, skip=False) != 'ok':
            raise ValueError('uninterrupted run on the stub pipeline failed')
        first = None
        order = []
        for rel in b.inj.log:                      # o_<kind>/<file> in write order; the first page's writes give the order
            kind, fname = rel.split(os.sep)[0][2:], rel.split(os.sep)[-1]
            page = next((p for p in PAGES if fname.startswith(p)), None)
            first = first or page
            if page == first and kind not in order:
                order.append(kind)
        if sorted(order) != sorted(KINDS):
            raise ValueError('write order not observed: %r' % (order,))
        listed = []
        real_listdir = os.listdir

        def rec(d='.'):
            d2 = str(d)
            if d2.startswith(os.path.join(b.root, 'o_')):
                k = os.path.basename(d2.rstrip(os.sep))[2:]
                if k not in listed:
                    listed.append(k)
            return real_listdir(d)
        os.listdir = rec
        try:
            res = b.run(KINDS, skip=True)
        finally:
            os.listdir = real_listdir
        probe = tempfile.mkdtemp(prefix='verif_c17_m_')
        try:
            for f in ('a.xml.b.xml', 'c.d.jpg', 'p1.logits', 'x.txt'):
                open(os.path.join(probe, f), 'w').close()
            ids = set(b.pf.load_already_processed_files_in_directory(probe))
        finally:
            shutil.rmtree(probe, ignore_errors=True)
        if ids == {'a.xml.b', 'c.d', 'p1'}:
            matcher = 'splitext'
        elif ids == {'a', 'c.d', 'p1'}:
            matcher = 'lazyRegex'
        else:
            raise ValueError('stem matcher not classified: %r' % (sorted(ids),))
        return dict(checked=listed, matcher=matcher, write_order=order, division_guarded=(res == 'ok'))


def translate(ctx):
    """Resume protocol facts read from parse_folder.py -> Generated/ParseFolder.lean."""
    try:
        facts = static_facts(ctx)
    except Exception as e:
        try:
            facts = dynamic_facts(ctx)
            ctx.notes.append('translator:parse-folder: source patterns not recognised (%r); facts read from the behaviour of main()' % (e,))
        except Exception as e2:
            ctx.brk('translator:parse-folder', 'static: %r; dynamic: %r' % (e, e2))
            return
    write_facts(ctx, facts)


def static_facts(ctx):
    if True:
        src = open(os.path.join(common.REPO, 'user_scripts/parse_folder.py')).read()
        tree = ast.parse(src)
        # (1) directories consulted
        checked = None
        for n in ast.walk(tree):
            if isinstance(n, ast.Call) and getattr(n.func, 'id', None) == 'load_already_processed_files' and n.args and isinstance(n.args[0], ast.List):
                checked = [ast.unparse(e) for e in n.args[0].elts]
        name2kind = {'output_xml_path': 'xml', 'output_logit_path': 'logits', 'output_render_path': 'render',
                     'output_alto_path': 'alto', 'output_line_path': 'lines'}
        if checked is None or any(c not in name2kind for c in checked):
            raise ValueError('checked directories not recognised: %r' % (checked,))
        checked = [name2kind[c] for c in checked]
        # (2) stem matcher
        fn = [n for n in ast.walk(tree) if isinstance(n, ast.FunctionDef) and n.name == 'load_already_processed_files_in_directory'][0]
        txt = ast.unparse(fn)
        if 're.compile' in txt and "(.+?)(\\\\.logits|\\\\.xml|\\\\.jpg)" in txt and 'regex.match(file)' in txt:
            matcher = 'lazyRegex'
        elif 'os.path.splitext(file)' in txt and 're.compile' not in txt:
            matcher = 'splitext'
        else:
            raise ValueError('stem matcher not recognised')
        # (3) write order in Computator.__call__
        call = [n for n in ast.walk(tree) if isinstance(n, ast.ClassDef) and n.name == 'Computator'][0]
        call = [n for n in call.body if isinstance(n, ast.FunctionDef) and n.name == '__call__'][0]
        order = []
        attr2kind = {'self.output_xml_path': 'xml', 'self.output_render_path': 'render', 'self.output_logit_path': 'logits',
                     'self.output_alto_path': 'alto', 'self.output_line_path': 'lines'}
        for n in ast.walk(call):
            if isinstance(n, ast.If):
                t = ast.unparse(n.test)
                for a, k in attr2kind.items():
                    if t.startswith(a + ' is not None') and k not in order:
                        order.append((n.lineno, k))
        order = [k for _, k in sorted(order)]
        if sorted(order) != sorted(KINDS):
            raise ValueError('write order not recognised: %r' % (order,))
        # (4) final statistics guarded against an empty batch?
        main = [n for n in ast.walk(tree) if isinstance(n, ast.FunctionDef) and n.name == 'main'][0]
        mtxt = ast.unparse(main)
        unguarded = '/ len(ids_to_process)' in mtxt and not re.search(r'if (len\(ids_to_process\)( > 0)?|ids_to_process):\s*\n\s*logger\.info\(f?.AVERAGE', mtxt)
        return dict(checked=checked, matcher=matcher, write_order=order, division_guarded=not unguarded)


def write_facts(ctx, facts):
    if True:
        checked, matcher, order, unguarded = facts['checked'], facts['matcher'], facts['write_order'], not facts['division_guarded']
        ctx.cov['translated'] = facts
        ctx.facts = facts
        kl = lambda ks: '[' + ', '.join('.' + k for k in ks) + ']'
        out = ('/-\nGENERATED by harness/c17.py:translate from user_scripts/parse_folder.py — do not edit.\n'
               '* checkedKinds: output directories passed to load_already_processed_files\n'
               '* matcher: how a page id is recovered from an output file name\n'
               '* writeOrder: order of the output writes in Computator.__call__\n'
               '* divisionGuarded: the final "AVERAGE PROCESSING TIME" division is guarded against an empty batch\n-/\n'
               'namespace Gen.ParseFolder\n\ninductive Kind where\n  | xml | render | logits | alto | lines\nderiving DecidableEq, Repr\n\n'
               'inductive Matcher where\n  | lazyRegex | splitext\nderiving DecidableEq, Repr\n\nopen Kind in\n'
               'def checkedKinds : List Kind := %s\n\nopen Kind in\ndef writeOrder : List Kind := %s\n\n'
               'def matcher : Matcher := .%s\n\ndef divisionGuarded : Bool := %s\n\nend Gen.ParseFolder\n'
               % (kl(checked), kl(order), matcher, 'true' if not unguarded else 'false'))
        p = os.path.join(common.LEAN, 'PeroVerif', 'Generated', 'ParseFolder.lean')
        if not os.path.exists(p) or open(p).read() != out:
            open(p, 'w').write(out)


def expected_complete(b, kinds, reference):
    """every requested output of every page present"""
    return b.listing(kinds) == reference


def run(ctx):
    rng = ctx.rng
    ctx.rule = ('3-page batch (ids p1, a.xml.b, c.d; 1..3 lines each) on the stub pipeline; every crash point (before each file-creating '
                'call in an output folder, incl. before the first and after the last); subsets of the five output kinds; sequences of '
                'up to three crashes and resumes; final run uninterrupted. non-trivial = history with >= 1 crash strictly inside a page')
    ctx.assumptions += ['a completed write is atomic and durable; a kill happens only between two writes (as the property states)',
                        'timestamps (Created/LastChange/processingDateTime) are ignored when comparing outputs']
    with Bench(ctx) as b:
        if ctx.quick():
            configs = [KINDS, ['xml', 'logits', 'alto'], ['xml', 'lines'], ['alto'], ['lines'], ['render', 'logits']]
        else:
            configs = [list(c) for r in range(1, 6) for c in itertools.combinations(KINDS, r)]
        for kinds in configs:
            b.clean()
            r = b.run(kinds, skip=False)
            ref_list = b.listing(kinds)
            ref_cont = b.contents(kinds)
            nwrites = b.inj.count
            inp0 = dict(kinds=kinds, pages=PAGES, writes_per_run=nwrites)
            ctx.evaluations += 1
            if r != 'ok':
                ctx.violation('uninterrupted-fails', 'uninterrupted run ended with %s' % r, inp0)
                continue
            # a run that finds nothing left to do exits cleanly and processes nothing
            r2 = b.run(kinds, skip=True)
            if r2 != 'ok':
                ctx.violation('nothing-to-do:%s' % r2, 'a run that finds nothing left to do does not exit cleanly (%s)' % r2, inp0)
            if b.processed:
                ctx.violation('complete-reprocessed:' + ('lines-only' if kinds == ['lines'] else 'kinds=' + '+'.join(kinds) if set(kinds) <= {'alto', 'lines'} else 'dotted-id' if all('.' in p for p in b.processed) else 'other'),
                              'pages whose outputs are all complete are processed again', inp0, b.processed)
            # crash histories
            points = list(range(1, nwrites + 1))
            histories = [[k] for k in points]
            if not ctx.quick():
                if getattr(ctx, 'stream', 0) > 0:
                    histories = []      # every single crash point is enumerated by stream 0; the other streams add sequences only
                histories += [[a, c] for a in points for c in points if rng.random() < 0.15]
                histories += [[rng.choice(points) for _ in range(3)] for _ in range(20)]
            else:
                histories += [[rng.choice(points), rng.choice(points)] for _ in range(4)] + [[rng.choice(points) for _ in range(3)] for _ in range(2)]
            for hist in histories:
                b.clean()
                ctx.evaluations += 1
                inp = dict(kinds=kinds, crash_before_write=hist)
                trace = []
                for j, k in enumerate(hist):
                    res = b.run(kinds, skip=True, kill_at=k)
                    trace.append((res, list(b.inj.log)))
                    if res not in ('killed', 'ok'):
                        ctx.violation('crashed-run:%s' % res, 'interrupted/resumed run ended with %s' % res, inp)
                res = b.run(kinds, skip=True)
                if res != 'ok':
                    ctx.violation('final-run:%s' % res, 'final uninterrupted resume ended with %s' % res, inp)
                lst = b.listing(kinds)
                if lst != ref_list:
                    missing = {k: sorted(set(ref_list[k]) - set(lst[k])) for k in kinds if set(ref_list[k]) - set(lst[k])}
                    ctx.violation('incomplete-after-resume:' + '+'.join(sorted(missing)),
                                  'after resuming, requested outputs are missing', inp, missing)
                else:
                    cont = b.contents(kinds)
                    diff = [k for k in ref_cont if cont.get(k) != ref_cont[k]]
                    if diff:
                        ctx.violation('content-differs', 'outputs differ from those of an uninterrupted run', inp, diff[:5])
                if any(t[0] == 'killed' for t in trace):
                    ctx.nontriv(inp)
                ctx.sample(dict(inp, runs=[t[0] for t in trace]), limit=4)
                ctx.hist = getattr(ctx, 'hist', [])
                ctx.hist.append((kinds, hist, [t[1] for t in trace], lst))
    parallel_resume(ctx)
    empty_page_resume(ctx)
    lmdb_resume(ctx)
    correspond(ctx)


def parallel_resume(ctx):
    """A batch interrupted in a serial run and RESUMED WITH SEVERAL WORKERS (--process-count N): every requested output must be
    there afterwards, also when fewer pages are left than there are workers."""
    rng = ctx.rng
    pages = ['w1', 'w2', 'w3', 'w4', 'w5']
    kinds = ['xml', 'render', 'lines']
    with Bench(ctx, pages=pages, ocr=False) as b:
        b.clean()
        r = b.run(kinds, skip=False)
        if r != 'ok':
            ctx.notes.append('parallel resume: the model-free reference run ended with %s; skipped' % r)
            return
        ref_list, ref_cont, nwrites = b.listing(kinds), b.contents(kinds), b.inj.count
        for it in range(4 if ctx.quick() else 6):
            b.clean()
            k = rng.randrange(max(1, nwrites // 3), nwrites + 1)      # mostly late crashes: few pages are left
            n = rng.choice([2, 3, 4, 6])
            inp = dict(kinds=kinds, pages=pages, crash_before_write=[k], resumed_with_process_count=n)
            ctx.evaluations += 1
            res = b.run(kinds, skip=True, kill_at=k)
            if res not in ('killed', 'ok'):
                ctx.violation('crashed-run:%s' % res, 'interrupted run ended with %s' % res, inp)
                continue
            res = b.run_parallel(kinds, n)
            if res != 'ok':
                ctx.violation('parallel-resume:%s' % res, 'resume with --process-count %d ended with %s' % (n, res), inp)
                continue
            lst = b.listing(kinds)
            if lst != ref_list:
                missing = {kk: sorted(set(ref_list[kk]) - set(lst[kk])) for kk in kinds if set(ref_list[kk]) - set(lst[kk])}
                ctx.violation('incomplete-after-resume:process-count', 'after resuming with several workers, requested outputs are missing', inp, missing)
            else:
                cont = b.contents(kinds)
                diff = [kk for kk in ref_cont if cont.get(kk) != ref_cont[kk]]
                if diff:
                    ctx.violation('content-differs:process-count', 'outputs of a resume with several workers differ from those of an uninterrupted run', inp, diff[:5])
            ctx.nontriv(inp)
            ctx.count('parallel_resumes')


def empty_page_resume(ctx):
    """A batch that contains a sheet WITHOUT text lines: its outputs count like any other page's (complete => not processed again,
    a run with nothing left to do processes nothing, crashes anywhere are repaired by a resume)."""
    rng = ctx.rng
    pages = ['p1', 'empty0', 'z2']
    with Bench(ctx, pages=pages) as b:
        for kinds in ([KINDS, ['xml', 'logits'], ['logits', 'alto']] if ctx.quick() else [KINDS, ['xml', 'logits'], ['logits'], ['logits', 'alto'], ['xml', 'render', 'alto']]):
            b.clean()
            r = b.run(kinds, skip=False)
            inp0 = dict(kinds=kinds, pages=pages, page_without_lines='empty0')
            ctx.evaluations += 1
            if r != 'ok':
                ctx.violation('uninterrupted-fails:empty-page', 'uninterrupted run over a batch with an empty sheet ended with %s' % r, inp0)
                continue
            ref_list, ref_cont, nwrites = b.listing(kinds), b.contents(kinds), b.inj.count
            r2 = b.run(kinds, skip=True)
            if r2 != 'ok':
                ctx.violation('nothing-to-do:%s' % r2, 'a run that finds nothing left to do does not exit cleanly (%s)' % r2, inp0)
            if b.processed and not (set(kinds) <= {'alto', 'lines'}):
                ctx.violation('complete-reprocessed:empty-page', 'pages whose outputs are all complete are processed again (batch with a sheet without text lines)',
                              inp0, b.processed)
            for k in (rng.sample(range(1, nwrites + 1), min(4, nwrites)) if ctx.quick() else range(1, nwrites + 1)):
                b.clean()
                ctx.evaluations += 1
                inp = dict(inp0, crash_before_write=[k])
                res = b.run(kinds, skip=True, kill_at=k)
                res = b.run(kinds, skip=True)
                if res != 'ok':
                    ctx.violation('final-run:%s' % res, 'final uninterrupted resume ended with %s' % res, inp)
                    continue
                lst = b.listing(kinds)
                if lst != ref_list:
                    missing = {kk: sorted(set(ref_list[kk]) - set(lst[kk])) for kk in kinds if set(ref_list[kk]) - set(lst[kk])}
                    ctx.violation('incomplete-after-resume:empty-page', 'after resuming, requested outputs are missing (batch with a sheet without text lines)', inp, missing)
                elif any(b.contents(kinds).get(kk) != v for kk, v in ref_cont.items()):
                    ctx.violation('content-differs:empty-page', 'outputs differ from those of an uninterrupted run', inp)
                ctx.nontriv(inp)
            ctx.count('empty_page_configs')


def lmdb_resume(ctx):
    """Line crops written into an LMDB (--output-line-path .../lmdb): killed between any two file writes and resumed, the database
    holds the crops of every transcribed line of every page, as after an uninterrupted run."""
    rng = ctx.rng
    try:
        import lmdb  # noqa: F401
    except ImportError:
        ctx.notes.append('lmdb not installed: LMDB line-crop output not exercised')
        return
    with Bench(ctx) as b:
        for kinds in ([['xml', 'logits', 'lmdb']] if ctx.quick() else [['xml', 'logits', 'lmdb'], ['alto', 'lmdb'], KINDS[:4] + ['lmdb']]):
            b.clean()
            r = b.run(kinds, skip=False)
            inp0 = dict(kinds=kinds, pages=PAGES, line_crops='LMDB')
            ctx.evaluations += 1
            if r != 'ok':
                ctx.violation('uninterrupted-fails:lmdb', 'uninterrupted run with LMDB line crops ended with %s' % r, inp0)
                continue
            ref_list, ref_cont, nwrites = b.listing(kinds), b.contents(kinds), b.inj.count
            if not ref_list['lmdb']:
                ctx.notes.append('LMDB reference run wrote no crops (no transcribed lines): skipped')
                continue
            for k in (rng.sample(range(1, nwrites + 1), min(4, nwrites)) if ctx.quick() else range(1, nwrites + 1)):
                b.clean()
                ctx.evaluations += 1
                inp = dict(inp0, crash_before_write=[k])
                b.run(kinds, skip=True, kill_at=k)
                res = b.run(kinds, skip=True)
                if res != 'ok':
                    ctx.violation('final-run:%s' % res, 'final uninterrupted resume ended with %s' % res, inp)
                    continue
                lst = b.listing(kinds)
                if lst != ref_list:
                    missing = {kk: sorted(set(ref_list[kk]) - set(lst[kk])) for kk in kinds if set(ref_list[kk]) - set(lst[kk])}
                    ctx.violation('incomplete-after-resume:lmdb', 'after resuming, requested outputs are missing (line crops in an LMDB)', inp, missing)
                elif any(b.contents(kinds).get(kk) != v for kk, v in ref_cont.items()):
                    ctx.violation('content-differs:lmdb', 'outputs differ from those of an uninterrupted run (line crops in an LMDB)', inp)
                ctx.nontriv(inp)
            ctx.count('lmdb_configs')


def correspond(ctx):
    ctx.notes.append('model correspondence for C17 (Resume model) is attached in harness/c17_model.py when present')
    try:
        from . import c17_model
    except ImportError:
        return
    c17_model.correspond(ctx)


def replay(data):
    for v in data.get('violations', []):
        print('replay', v['key'], v['what'], v['input'], v['observed'])
    return 1 if data.get('violations') else 0
