"""C12 — region sorting only permutes regions and always terminates (DESIGN §5-C12).

Exact correspondence on integer boxes with zero skew (model order = real order, both sorters); slanted pages and
arbitrary polygons: oracle only (ids a permutation, lines/text intact, polygons equal as shapes up to 1e-6).
"""
import configparser
import copy
import signal

import numpy as np

from . import common


def cfg(**kw):
    c = configparser.ConfigParser()
    c['S'] = {k: str(v) for k, v in kw.items()}
    return c['S']


def mk_page(rng, boxes, slant=0.0, with_lines=True):
    from pero_ocr.core.layout import PageLayout, RegionLayout, TextLine
    pl = PageLayout(id='p', page_size=(3000, 3000))
    # line geometry as the callers hold it: float64 (PAGE XML import), integer pixels (detectors) or float32
    base_dtype = rng.choice([np.float64, np.float64, np.int64, np.float32])
    # line ids: unique on the page, numbered per region (the same ids in every region), or absent (TextLine's default)
    id_scheme = rng.choice(['unique', 'unique', 'per-region', 'none'])
    for i, (x0, y0, x1, y1) in enumerate(boxes):
        poly = np.array([[x0, y0], [x1, y0], [x1, y1], [x0, y1]])
        if rng.random() < 0.3 and x1 > x0 + 4 and y1 > y0 + 4:   # L-shape / extra vertices, same bounding box
            poly = np.array([[x0, y0], [x1, y0], [x1, y1], [(x0 + x1) // 2, y1], [(x0 + x1) // 2, (y0 + y1) // 2], [x0, (y0 + y1) // 2]])
        elif rng.random() < 0.25 and x1 > x0 + 8 and y1 > y0 + 8:  # arbitrary (non-simple) outlines, same bounding box unless spur
            xm, ym = (x0 + x1) // 2, (y0 + y1) // 2
            kind = rng.randrange(3)
            if kind == 0:      # rectangle with a zero-width spur
                poly = np.array([[x0, y0], [x1, y0], [x1, ym], [x1 + 40, ym], [x1, ym], [x1, y1], [x0, y1]])
            elif kind == 1:    # self-overlapping ring (walks part of its area twice)
                poly = np.array([[x0, y0], [x1, y0], [x1, y1], [x0, y1], [x0, ym], [xm, ym], [xm, y0 + 2], [x0 + 2, y0 + 2]])
            else:              # bow-tie
                poly = np.array([[x0, y0], [x1, y1], [x1, y0], [x0, y1]])
        reg = RegionLayout('r%d' % i, poly)
        reg.transcription = 'text %d' % i
        if with_lines:
            for k in range(rng.randrange(0, 3)):
                y = y0 + 5 + 10 * k
                dy = slant * (x1 - x0)
                lid = 'r%d-l%d' % (i, k) if id_scheme == 'unique' else ('l%d' % k if id_scheme == 'per-region' else None)
                reg.lines.append(TextLine(id=lid, baseline=np.array([[x0, y], [x1, y + dy]], dtype=float).astype(base_dtype),
                                          polygon=np.array([[x0, y - 4], [x1, y - 4 + dy], [x1, y + 2 + dy], [x0, y + 2]], dtype=float),
                                          heights=[4, 2], transcription='t%d.%d' % (i, k)))
        pl.regions.append(reg)
    return pl


def gen_boxes(rng):
    mode = rng.random()
    n = rng.randrange(0, 11)
    if mode < 0.25:     # grid / columns
        cols = rng.randrange(1, 4)
        rows = rng.randrange(1, 5)
        boxes = []
        for c in range(cols):
            for r in range(rows):
                if rng.random() < 0.85:
                    boxes.append((100 + 400 * c + rng.randrange(0, 20), 100 + 300 * r + rng.randrange(0, 20),
                                  100 + 400 * c + 350 + rng.randrange(0, 40), 100 + 300 * r + 250 + rng.randrange(0, 40)))
        rng.shuffle(boxes)
        return boxes
    if mode < 0.45:     # mutually overlapping in both axes (fallback path)
        return [(rng.randrange(0, 300), rng.randrange(0, 300), rng.randrange(300, 800), rng.randrange(300, 800)) for _ in range(n)]
    if mode < 0.6:      # identical / degenerate
        base = (rng.randrange(0, 500), rng.randrange(0, 500), rng.randrange(500, 900), rng.randrange(500, 900))
        out = []
        for _ in range(n):
            r = rng.random()
            if r < 0.4:
                out.append(base)
            elif r < 0.6:
                x = rng.randrange(0, 900)
                out.append((x, rng.randrange(0, 400), x, rng.randrange(400, 900)))      # zero width
            elif r < 0.8:
                y = rng.randrange(0, 900)
                out.append((rng.randrange(0, 400), y, rng.randrange(400, 900), y))      # zero height
            else:
                x, y = rng.randrange(0, 900), rng.randrange(0, 900)
                out.append((x, y, x, y))
        return out
    out = []
    for _ in range(n):
        x0, y0 = rng.randrange(0, 2000), rng.randrange(0, 2000)
        out.append((x0, y0, x0 + rng.randrange(0, 600), y0 + rng.randrange(0, 600)))
    return out


class Timeout(Exception):
    pass


def with_timeout(fn, secs=20):
    def h(sig, frm):
        raise Timeout()
    old = signal.signal(signal.SIGALRM, h)
    signal.alarm(secs)
    try:
        return fn()
    finally:
        signal.alarm(0)
        signal.signal(signal.SIGALRM, old)


def same_shape(a, b):
    a = np.asarray(a, dtype=float)
    b = np.asarray(b, dtype=float)
    if len(a) > 1 and np.allclose(a[0], a[-1]):
        a = a[:-1]
    if len(b) > 1 and np.allclose(b[0], b[-1]):
        b = b[:-1]
    if a.shape != b.shape:
        return False
    n = len(a)
    for sh in range(n):
        if np.allclose(np.roll(a, sh, axis=0), b, atol=1e-6) or np.allclose(np.roll(a[::-1], sh, axis=0), b, atol=1e-6):
            return True
    return False


def check_perm(ctx, name, before, after, inp, exact_geometry):
    ids_b = [r.id for r in before.regions]
    ids_a = [r.id for r in after.regions]
    if sorted(ids_a) != sorted(ids_b):
        ctx.violation(name + ':not-a-permutation', name + ' sorter does not return exactly the input regions', inp, ids_a, ids_b)
        return None
    bm = {r.id: r for r in before.regions}
    for r in after.regions:
        o = bm[r.id]
        if r.transcription != o.transcription or [l.id for l in r.lines] != [l.id for l in o.lines] or \
                [l.transcription for l in r.lines] != [l.transcription for l in o.lines]:
            ctx.violation(name + ':content-changed', name + ' sorter changed lines/ids/text of a region', inp, r.id)
        ok = (np.array_equal(np.asarray(r.polygon), np.asarray(o.polygon)) if exact_geometry else same_shape(r.polygon, o.polygon))
        for l, lo in zip(r.lines, o.lines):
            ok = ok and (np.allclose(np.asarray(l.baseline, dtype=float), np.asarray(lo.baseline, dtype=float), atol=1e-6)) \
                and same_shape(l.polygon, lo.polygon)
        if not ok:
            ctx.violation(name + ':geometry-changed' + ('' if exact_geometry else ':deskew'), name + ' sorter changed the geometry of a region', inp, r.id)
    return ids_a


def run(ctx):
    from pero_ocr.layout_engines.smart_sorter import SmartRegionSorter
    from pero_ocr.layout_engines.naive_sorter import NaiveRegionSorter
    from sklearn.cluster import DBSCAN
    rng = ctx.rng
    ctx.rule = ('0..10 regions with unique ids: grids/columns, mutually overlapping in both axes (recursive fallback), identical, '
                'zero-width/zero-height/point boxes, L-shaped polygons, non-simple outlines (spur, self-overlapping ring, bow-tie); pages with slanted lines (non-zero de-skew, oracle only); both '
                'sorters; intersection parameter 0.1 (and others); non-trivial = >= 3 regions and the order changed')
    ctx.assumptions += ['shapely affinity.rotate / DBSCAN are parameters (trusted); NumPy x/0 = inf or nan']
    reqs, impl = [], []
    n = 600 if ctx.quick() else 8000
    img = np.zeros((3000, 3000, 3), dtype=np.uint8)
    for it in range(n):
        boxes = gen_boxes(rng)
        slanted = rng.random() < 0.3
        num, den = rng.choice([(1, 10), (1, 10), (1, 10), (0, 1), (1, 2)])
        inp = dict(boxes=boxes, slanted=slanted, intersect_param='%d/%d' % (num, den))
        ctx.evaluations += 1
        page = mk_page(rng, boxes, slant=(rng.uniform(-0.2, 0.2) if slanted else 0.0))
        before = copy.deepcopy(page)
        inp['polygons'] = [np.asarray(r.polygon).tolist() for r in page.regions]
        inp['line_ids'] = [[l.id for l in r.lines] for r in page.regions]
        pboxes = [[int(np.min(np.asarray(r.polygon)[:, 0])), int(np.min(np.asarray(r.polygon)[:, 1])),
                   int(np.max(np.asarray(r.polygon)[:, 0])), int(np.max(np.asarray(r.polygon)[:, 1]))] for r in page.regions]
        smart = SmartRegionSorter(cfg(FakeIntersectionParameter=num / den))
        try:
            out = with_timeout(lambda: smart.process_page(img, copy.deepcopy(page)))
            ids_smart = check_perm(ctx, 'smart', before, out, inp, exact_geometry=not slanted)
        except Timeout:
            ctx.violation('smart:non-termination', 'smart sorter did not terminate within 20 s', inp)
            ids_smart = None
        except Exception as e:
            ctx.violation('smart:raises:' + type(e).__name__, 'smart sorter raised %r' % (e,), inp)
            ids_smart = None
        naive = NaiveRegionSorter(cfg(ImageWidthDenominator=10))
        try:
            out2 = with_timeout(lambda: naive.process_page(img, copy.deepcopy(page)))
            ids_naive = check_perm(ctx, 'naive', before, out2, inp, exact_geometry=True)
        except Exception as e:
            ctx.violation('naive:raises:%s:%s' % (type(e).__name__, 'empty-page' if not boxes else 'nonempty'), 'naive sorter raised %r' % (e,), inp)
            ids_naive = None
        if len(boxes) >= 3 and ids_smart is not None and ids_smart != ['r%d' % i for i in range(len(boxes))]:
            ctx.nontriv(inp)
        ctx.sample(dict(inp, smart=ids_smart, naive=ids_naive), limit=4)
        if not slanted and ids_smart is not None:
            reqs.append(dict(p='C12', op='smart', num=1, den=10,   # intersect() is always called with its default 0.1: the configured value is ignored
                              boxes=[[i] + list(b) for i, b in enumerate(pboxes)]))
            impl.append((inp, [int(x[1:]) for x in ids_smart]))
        if ids_naive is not None and boxes:
            keys = [int(b[1]) for b in pboxes]
            labels = DBSCAN(eps=3000 // 10, min_samples=1).fit_predict(np.array(keys).reshape((-1, 1)))
            reqs.append(dict(p='C12', op='naive', keys=keys, labels=[int(x) for x in labels]))
            impl.append((inp, [int(x[1:]) for x in ids_naive]))
    if ctx.driver_ok:
        rep = common.Driver(ctx).batch(reqs)
        for r, (inp, got), q in zip(rep, impl, reqs):
            m = r.get('ok', r.get('err'))
            if m != got:
                ctx.disagree('C12 %s order differs' % q['op'], inp, got, m)
            else:
                ctx.traces_validated += 1
    else:
        ctx.notes.append('driver unavailable: correspondence skipped, oracle only')


def replay(data):
    for v in data.get('violations', []):
        print('replay', v['key'], v['what'], str(v['input'])[:400], v['observed'])
    return 1 if data.get('violations') else 0
