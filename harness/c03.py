"""C03 — LM fusion (DESIGN §5-C03): LM score = the LM's own score along the transcript; the result maximises
vis + scale*LM; it is the hypothesis whose posterior is the confidence and whose state is returned.

Real decoder driven with a duck-typed history-hash toy LM (state = polynomial hash of the whole prefix, so any
route dependence shows). Scales are rationals num/den; the model ranks by vis^den * plm^num (exact).
"""
import ast
import math
import os
from fractions import Fraction as F

import numpy as np

from . import common
from . import pbcommon as pb
from .c02 import close, hyps_of, traced_call


def translate(ctx):
    """Which expression does best_hyp() maximise?  (recorded; the oracle judges the behaviour)"""
    try:
        src = open(os.path.join(common.REPO, 'pero_ocr/decoding/bag_of_hypotheses.py')).read()
        tree = ast.parse(src)
        for n in ast.walk(tree):
            if isinstance(n, ast.FunctionDef) and n.name == 'best_hyp':
                txt = ast.unparse(n)
                ctx.cov['best_hyp_source'] = txt.split('\n', 1)[1].strip()
                ctx.cov['best_hyp_uses_lm_weight'] = 'lm_weight' in txt or 'total_scores' in txt
                return
        ctx.brk('translator:best_hyp', 'best_hyp not found')
    except Exception as e:
        ctx.brk('translator:best_hyp', repr(e))


def logsumexp(xs):
    m = max(xs)
    return m + math.log(sum(math.exp(x - m) for x in xs))


def run(ctx):
    from pero_ocr.decoding.decoders import CTCPrefixLogRawNumpyDecoder, BLANK_SYMBOL
    rng = ctx.rng
    ctx.rule = ('matrices as in C02; history-hash toy LMs (state = hash of the whole prefix); LM scale in {0,1/2,1,3/2,2,3}; '
                'insertion bonus factor in {1,3/2,2}; k in {1,2,3,5,100}; with/without end-of-line score and supplied initial state. '
                'non-trivial = >= 2 hypotheses returned and LM changes the ranking or scale > 0')
    ctx.assumptions += ['floating-point log-domain arithmetic agrees with exact arithmetic within 1e-7 relative; rank decisions '
                        'with margin < 1e-6 are skipped (ties_skipped)']
    n = 800 if ctx.quick() else 9000
    reqs, impl = [], []
    treqs, timpl = [], []
    for it in range(n):
        rows = pb.gen_matrix(rng)
        if pb.near_threshold(rows):
            continue
        T, C = len(rows), len(rows[0])
        k = rng.choice([1, 2, 3, 5, 100])
        pruning = rng.random() < 0.6
        num, den = rng.choice([(0, 1), (1, 2), (1, 1), (3, 2), (2, 1), (3, 1)])
        scale = num / den
        bonus = rng.choice([F(1), F(3, 2), F(2)])
        model_eos = rng.random() < 0.4
        toy = pb.gen_toy(rng, C - 1)
        h0 = rng.randrange(toy.m) if rng.random() < 0.5 else None
        P = pb.to_probs(rows)
        L = pb.to_logits(rows)
        letters = [chr(97 + i) for i in range(C - 1)] + [BLANK_SYMBOL]
        kw = dict(lm=toy, lm_scale=scale, insertion_bonus=math.log(bonus))
        if not pruning:
            kw['relevant_logits_selector'] = lambda x: np.nonzero(x > -np.inf)
        inp = dict(weights=rows, k=k, pruning_selector=pruning, scale=[num, den], bonus=str(bonus), model_eos=model_eos,
                   h0=h0, lm=dict(m=toy.m, table=[str(x) for x in toy.table], eos=[str(x) for x in toy.eos]))
        ctx.evaluations += 1
        dec = CTCPrefixLogRawNumpyDecoder(letters, k, **kw)
        # history: half of the decoders have already decoded another line (other matrix, other start state)
        warm = rng.random() < 0.5
        inp['decoder_reused'] = warm
        if warm:
            ctx.count('decoder_reused')
            for _ in range(rng.choice([1, 1, 2])):
                rows_w = pb.gen_matrix(rng, C=C)
                if rng.random() < 0.3:
                    # an all-blank line (no character above the relevance threshold in any frame): every frame takes the short cut
                    rows_w = [[0] * (C - 1) + [1] for _ in range(rng.randrange(1, 5))]
                if pb.near_threshold(rows_w):
                    continue
                hw = rng.randrange(toy.m) if rng.random() < 0.7 else None
                inp.setdefault('earlier_lines', []).append(dict(weights=rows_w, h0=hw))
                try:
                    dec(pb.to_logits(rows_w), model_eos=model_eos, return_h=True, init_h=None if hw is None else np.array([hw], dtype=np.int64))
                except Exception:
                    pass
        trace = None
        try:
            if rng.random() < 0.5:
                (bag, h_ret), trace = traced_call(dec, L, model_eos=model_eos, return_h=True, init_h=None if h0 is None else np.array([h0], dtype=np.int64))
            else:
                bag, h_ret = dec(L, model_eos=model_eos, return_h=True, init_h=None if h0 is None else np.array([h0], dtype=np.int64))
        except Exception as e:
            ctx.violation('raises:' + type(e).__name__, 'decoder with LM raised %r' % (e,), inp)
            continue
        start = 0 if h0 is None else h0
        got = hyps_of(bag)
        # 1. LM score is the LM's own score
        states = {}
        for tr, vis, lm_sc in got:
            w, hfin = toy.score(start, tr, bonus)
            if model_eos:
                w = w * toy.eos1(hfin)
            states[tr] = hfin
            if lm_sc is None or not close(math.exp(lm_sc), float(w), 1e-7):
                ctx.violation('lm-score', "reported LM score is not the LM's own score along the transcript", inp, [list(tr), lm_sc], math.log(w))
        # 2. best hypothesis maximises vis + scale * lm
        tot = [vis + scale * lm_sc for tr, vis, lm_sc in got]
        order = sorted(range(len(got)), key=lambda i: -tot[i])
        tie = len(order) > 1 and abs(tot[order[0]] - tot[order[1]]) < 1e-6
        best_tr = ''.join(chr(97 + c) for c in got[order[0]][0])
        if tie:
            ctx.count('ties_skipped_best')
        else:
            bh = bag.best_hyp()
            if bh != best_tr:
                ctx.violation('best-hyp:scale=%s' % ('1' if scale == 1 else 'other'),
                              'best_hyp() is not the hypothesis maximising vis + scale*LM', inp, bh, best_tr)
            # 3. returned LM state belongs to that hypothesis
            if int(h_ret[0]) != states[got[order[0]][0]]:
                ctx.violation('returned-state', 'returned LM state is not the state of the best hypothesis', inp, int(h_ret[0]), states[got[order[0]][0]])
            # 4. confidence = posterior of that hypothesis
            conf = bag.confidence()
            exp_conf = math.exp(tot[order[0]] - logsumexp(tot))
            if not close(conf, exp_conf, 1e-7):
                ctx.violation('confidence', 'bag confidence is not the posterior of the best hypothesis', inp, conf, exp_conf)
        # 5. scale 0 reproduces LM-free decoding
        if num == 0:
            kw0 = {}
            if not pruning:
                kw0['relevant_logits_selector'] = kw['relevant_logits_selector']
            free = hyps_of(CTCPrefixLogRawNumpyDecoder(letters, k, **kw0)(L))
            _, margin = pb.ref_prefix_beam(P, k, F(pb.E10) if pruning else F(0), C - 1)
            if margin is not None and margin < F(1, 10 ** 6):
                ctx.count('ties_skipped_scale0')
            else:
                a = {tr: vis for tr, vis, _ in got}
                b = {tr: vis for tr, vis, _ in free}
                if set(a) != set(b) or any(not close(math.exp(a[t]), math.exp(b[t])) for t in a):
                    ctx.violation('scale0', 'LM scale 0 does not reproduce LM-free decoding', inp, sorted(a), sorted(b))
                elif not tie:
                    fb = max(free, key=lambda h: h[1])
                    if ''.join(chr(97 + c) for c in fb[0]) != bag.best_hyp():
                        ctx.violation('scale0-best', 'LM scale 0: result differs from the LM-free result', inp)
            ctx.count('scale0_checked')
        if len(got) >= 2:
            ctx.nontriv(inp)
        ctx.sample(dict(inp, hyps=[[list(t), v, l] for t, v, l in got], best=best_tr), limit=3)
        thr = F(pb.E10) if pruning else F(0)
        reqs.append(dict(p='C03', op='decode', M=[[pb.rat(x) for x in r] for r in P], k=k, thr=pb.rat(thr), tol=pb.rat(pb.TOL),
                         lm=dict(m=toy.m, table=[pb.rat(x) for x in toy.table], eos=[pb.rat(x) for x in toy.eos], h0=start,
                                 bonus=pb.rat(bonus), num=num, den=den, model_eos=model_eos)))
        impl.append((inp, got, None if tie else best_tr, int(h_ret[0]), bag.posteriors() if den == 1 else None))
        if trace is not None and len(trace) == T:
            treqs.append(dict(reqs[-1], op='trace'))
            timpl.append((inp, trace))
    if ctx.driver_ok:
        rep = common.Driver(ctx).batch(reqs)
        for r, (inp, got, best_tr, h_ret, post) in zip(rep, impl):
            m = r.get('ok')
            if m is None:
                ctx.disagree('C03 model error', inp, 'decoded', r)
                continue
            mg = m['margin']
            if mg is not None and F(mg[0], mg[1]) < F(1, 10 ** 6):
                ctx.count('model_ties_skipped')
                continue
            md = {tuple(h[0]): (F(*h[1]), F(*h[2]), h[3]) for h in m['hyps']}
            gd = {tr: (vis, lm) for tr, vis, lm in got}
            if set(md) != set(gd):
                ctx.disagree('C03 hypothesis sets differ', inp, sorted(gd), sorted(md))
                continue
            bad = [t for t in md if not close(math.exp(gd[t][0]), float(md[t][0])) or not close(math.exp(gd[t][1]), float(md[t][1]))]
            if bad:
                ctx.disagree('C03 scores differ', inp, {str(t): gd[t] for t in bad}, {str(t): [float(md[t][0]), float(md[t][1])] for t in bad})
                continue
            if best_tr is not None and m['best'] is not None:
                mb = m['hyps'][m['best']]
                if ''.join(chr(97 + c) for c in mb[0]) != best_tr or mb[3] != h_ret:
                    ctx.disagree('C03 best hypothesis / returned state differ', inp, [best_tr, h_ret], [mb[0], mb[3]])
                    continue
            if post is not None and m['posteriors']:
                mp = {tuple(h[0]): float(F(*q)) for h, q in zip(m['hyps'], m['posteriors'])}
                gp = {tr: math.exp(p) for (tr, _, _), p in zip(got, post)}
                if any(not close(gp[t], mp[t], 1e-6) for t in mp):
                    ctx.disagree('C03 posteriors differ', inp, gp, mp)
                    continue
            ctx.traces_validated += 1
        # per-frame correspondence with the LM: beam (prefix -> Pb, Pnb, LM score) at the start of every frame
        trep = common.Driver(ctx).batch(treqs)
        for r, (inp, trace) in zip(trep, timpl):
            m = r.get('ok')
            if m is None:
                ctx.disagree('C03 trace: model error', inp, None, r)
                continue
            okc = True
            for t in range(len(trace) - 1):
                mg = m[t]['margin']
                if mg is not None and F(mg[0], mg[1]) < F(1, 10 ** 6):
                    ctx.count('trace_frames_skipped_after_tie', len(trace) - 1 - t)
                    break
                pre, Pb_, Pnb_, Plm_ = trace[t + 1]
                mb = {tuple(e[0]): (float(F(*e[1])), float(F(*e[2])), float(F(*e[3]))) for e in m[t]['beam']}
                gb = {p: (math.exp(a), math.exp(b)) for p, a, b in zip(pre, Pb_, Pnb_)}
                bad = set(mb) != set(gb) or any(not close(gb[p][0], mb[p][0]) or not close(gb[p][1], mb[p][1]) for p in mb)
                if not bad and Plm_ is not None:
                    gl = {p: math.exp(x) for p, x in zip(pre, Plm_)}
                    bad = any(not close(gl[p], mb[p][2], 1e-7) for p in mb)
                if bad:
                    ctx.disagree('C03 trace: beam after frame %d differs (prefix -> Pb, Pnb, LM score)' % t, inp,
                                 {str(p): v for p, v in sorted(gb.items())}, {str(p): v for p, v in sorted(mb.items())})
                    okc = False
                    break
                ctx.count('trace_frames_compared')
            if okc:
                ctx.traces_validated += 1
    else:
        ctx.notes.append('driver unavailable: correspondence skipped, oracle only')
    real_lm_oracle(ctx, rng)
    colliding_alphabet_oracle(ctx, rng)


def colliding_alphabet_oracle(ctx, rng):
    """A legal alphabet in which different symbol sequences render to the same text (symbols 'a', 'b', 'ab', joined without a
    separator): the returned LM state must still be the state of the hypothesis that maximises vis + scale*LM, not of another
    hypothesis that merely READS the same."""
    from pero_ocr.decoding.decoders import CTCPrefixLogRawNumpyDecoder, BLANK_SYMBOL
    render = ['a', 'b', 'ab']
    letters = render + [BLANK_SYMBOL]

    def sequences(text):
        if text == '':
            return [()]
        out = []
        for i, r in enumerate(render):
            if text.startswith(r):
                out += [(i,) + rest for rest in sequences(text[len(r):])]
        return out
    for it in range(150 if ctx.quick() else 1500):
        rows = pb.gen_matrix(rng, C=4)
        if pb.near_threshold(rows):
            continue
        k = rng.choice([2, 3, 5, 100])
        num, den = rng.choice([(1, 2), (1, 1), (2, 1)])
        scale = num / den
        bonus = rng.choice([F(1), F(3, 2)])
        toy = pb.gen_toy(rng, 3)
        h0 = rng.randrange(toy.m) if rng.random() < 0.5 else None
        start = 0 if h0 is None else h0
        dec = CTCPrefixLogRawNumpyDecoder(letters, k, lm=toy, lm_scale=scale, insertion_bonus=math.log(bonus))
        inp = dict(alphabet=render, weights=rows, k=k, scale=[num, den], bonus=str(bonus), h0=h0,
                   lm=dict(m=toy.m, table=[str(x) for x in toy.table], eos=[str(x) for x in toy.eos]))
        ctx.evaluations += 1
        try:
            bag, h_ret = dec(pb.to_logits(rows), return_h=True, init_h=None if h0 is None else np.array([h0], dtype=np.int64))
        except Exception as e:
            ctx.violation('raises:' + type(e).__name__, 'decoder with LM raised %r' % (e,), inp)
            continue
        # identify the symbol sequence of every hypothesis by its LM score (the LM scores of different sequences differ)
        cands = []
        ok = True
        for h in bag:
            seqs = [s for s in sequences(h.transcript) if close(math.exp(h.lm_sc), float(toy.score(start, s, bonus)[0]), 1e-7)]
            if len(seqs) != 1:
                ok = False
                break
            cands.append((seqs[0], float(h.vis_sc) + scale * float(h.lm_sc)))
        if not ok or not cands:
            ctx.count('colliding:unidentified')
            continue
        order = sorted(range(len(cands)), key=lambda i: -cands[i][1])
        if len(order) > 1 and abs(cands[order[0]][1] - cands[order[1]][1]) < 1e-6:
            continue
        exp_state = toy.score(start, cands[order[0]][0], bonus)[1]
        texts = [h.transcript for h in bag]
        if len(set(texts)) < len(texts):
            ctx.count('colliding:same-text-twice')
            ctx.nontriv(inp)
        if int(h_ret[0]) != exp_state:
            ctx.violation('returned-state:colliding-alphabet', 'returned LM state is not the state of the hypothesis maximising vis + scale*LM '
                          '(two hypotheses read the same text)', inp, int(h_ret[0]), exp_state)
        ctx.count('colliding_alphabet_cases')


def real_lm_oracle(ctx, rng):
    """The prefix decoder with the REAL LMWrapper / HiddenState (lm_wrapper.py is an anchor of C03) around a tiny seeded torch LM.
    Reference: the raw torch modules run symbol by symbol along each returned transcript from a pristine copy of the start state.
    History: the same decoder AND the same start-state object are used for several lines."""
    import torch
    from pero_ocr.decoding.decoders import CTCPrefixLogRawNumpyDecoder, BLANK_SYMBOL
    from pero_ocr.decoding.lm_wrapper import HiddenState
    from .c08 import make_torch_lm

    def clone(h):
        return tuple(x.clone() for x in h) if isinstance(h, tuple) else h.clone()

    def same(a, b, tol=0.0):
        if isinstance(a, tuple) != isinstance(b, tuple):
            return False
        aa, bb = (a, b) if isinstance(a, tuple) else ((a,), (b,))
        return len(aa) == len(bb) and all(x.shape == y.shape and float((x - y).abs().max()) <= tol for x, y in zip(aa, bb))

    n = 60 if ctx.quick() else 500
    for it in range(n):
        nch = rng.choice([2, 3])
        tuple_state = rng.random() < 0.5
        lmw = make_torch_lm(rng, nch, tuple_state)
        lm = lmw._lm
        letters = [chr(97 + i) for i in range(nch)] + [BLANK_SYMBOL]
        k = rng.choice([1, 1, 2, 3])
        num, den = rng.choice([(0, 1), (1, 2), (1, 1), (2, 1)])
        scale = num / den
        bonus = rng.choice([0.0, 0.4])
        model_eos = rng.random() < 0.4
        kw = dict(lm=lmw, lm_scale=scale, insertion_bonus=bonus)
        if rng.random() < 0.5:
            kw['relevant_logits_selector'] = lambda x: np.nonzero(x > -np.inf)
        dec = CTCPrefixLogRawNumpyDecoder(letters, k, **kw)
        # start state: none (the LM's initial state) or the state after some earlier text, handed over as ONE object for all lines
        with torch.no_grad():
            raw0 = lm.model(torch.tensor([[0]]), lm.model.init_hidden(1))[1]
            supplied = rng.random() < 0.7
            if supplied:
                txt = [rng.randrange(1, nch + 1) for _ in range(rng.randrange(0, 4))]
                raw_start = lm.model(torch.tensor([[0] + txt + [0]]), lm.model.init_hidden(1))[1]
            else:
                raw_start = raw0
        pristine = clone(raw_start)
        init_h = HiddenState(clone(raw_start)) if supplied else None
        lines = [pb.gen_matrix(rng, C=nch + 1) for _ in range(rng.choice([1, 2, 2, 3]))]
        lines = [r for r in lines if not pb.near_threshold(r)]
        if rng.random() < 0.5 and lines:
            lines.append(lines[0])                                  # the same line again, later
        inp = dict(real_lm=dict(chars=nch, tuple_state=tuple_state), k=k, scale=[num, den], bonus=bonus, model_eos=model_eos,
                   start_state_supplied=supplied, lines=lines)
        results = []
        for li, rows in enumerate(lines):
            ctx.evaluations += 1
            L = pb.to_logits(rows)
            try:
                bag, h_ret = dec(L, model_eos=model_eos, return_h=True, init_h=init_h)
            except Exception as e:
                ctx.violation('raises:real-lm:' + type(e).__name__, 'decoder with the real LMWrapper raised %r' % (e,), dict(inp, line=li))
                break
            got = hyps_of(bag)
            results.append(got)
            if supplied and not same(init_h.prepare_for_torch(), pristine):
                ctx.violation('start-state-modified', 'decoding changed the LM start state object it was given (the next line then starts '
                              'from another state)', dict(inp, line=li))
                break
            # reference along every transcript
            ref_state = {}
            with torch.no_grad():
                for tr, vis, lm_sc in got:
                    h = clone(pristine)
                    sc = 0.0
                    for c in tr:
                        out = (h[0] if isinstance(h, tuple) else h)[-1]
                        y = lm.decoder(out)
                        sc += float(y[0, c + 1]) + bonus
                        h = lm.model(torch.tensor([[c + 1]]), h)[1]
                    if model_eos:
                        out = (h[0] if isinstance(h, tuple) else h)[-1]
                        sc += float(lm.decoder(out)[0, 0])
                    ref_state[tr] = h
                    if lm_sc is None or abs(lm_sc - sc) > 1e-4 * (1 + abs(sc)):
                        ctx.violation('lm-score:real-lm', "reported LM score is not the LM's own score along the transcript from the given "
                                      'start state (real LMWrapper)', dict(inp, line=li), [list(tr), lm_sc], sc)
            tot = [vis + scale * lm_sc for tr, vis, lm_sc in got]
            order = sorted(range(len(got)), key=lambda i: -tot[i])
            if len(order) == 1 or abs(tot[order[0]] - tot[order[1]]) > 1e-6:
                if not same(h_ret.prepare_for_torch(), ref_state[got[order[0]][0]], 1e-4):
                    ctx.violation('returned-state:real-lm', 'returned LM state is not the state of the best hypothesis (real LMWrapper)',
                                  dict(inp, line=li))
            if len(got) >= 2 or li > 0:
                ctx.nontriv(dict(inp, line=li))
        # the same line decoded twice with the same decoder and start state gives the same result
        if len(results) == len(lines) and len(lines) >= 2 and lines[-1] is lines[0]:
            a, b = results[0], results[-1]
            if [t for t, _, _ in a] != [t for t, _, _ in b] or any(abs(x[1] - y[1]) > 1e-9 or abs(x[2] - y[2]) > 1e-6 for x, y in zip(a, b)):
                ctx.violation('repeat:real-lm', 'the same line decoded again with the same decoder and start state gives another result', inp)
        ctx.count('real_lm_cases')


def replay(data):
    for v in data.get('violations', []):
        print('replay', v['key'], v['what'], v['input'], 'observed', v['observed'], 'expected', v['expected'])
        if v['key'].startswith('best-hyp'):
            from pero_ocr.decoding.bag_of_hypotheses import BagOfHypotheses
            b = BagOfHypotheses(lm_weight=0.0)
            b.add('x', -1.0, -5.0)
            b.add('y', -2.0, -1.0)
            print('  minimal: BagOfHypotheses(lm_weight=0) with x:(-1,-5) y:(-2,-1): best_hyp() =', b.best_hyp(),
                  'total_scores =', b.total_scores())
    return 1 if data.get('violations') else 0
