"""Shared machinery for the per-property checks (see DESIGN.md §2).

Everything random derives from one PRNG seeded by VERIF_SEED.  The Lean model is driven through
the compiled line-protocol driver (lean/.lake/build/bin/driver); the real implementation is imported
in-process from /repo (editable install of pero_ocr in /venv).
"""
import fcntl
import hashlib
import json
import os
import random
import re
import subprocess
import sys
import time

VERIF = os.path.dirname(os.path.dirname(os.path.abspath(__file__)))
LEAN = os.path.join(VERIF, 'lean')
REPO = os.environ.get('VERIF_REPO', '/repo')
DRIVER = os.path.join(LEAN, '.lake', 'build', 'bin', 'driver')
ALLOWED_AXIOMS = {'propext', 'Classical.choice', 'Quot.sound'}
FORBIDDEN = ['sorry', 'admit', 'native_decide', 'bv_decide', 'implemented_by', 'unsafe ',
             'maxHeartbeats 0', 'ofReduceBool']

TRUSTED_BASE = [
    'Lean 4.33.0 kernel; Mathlib v4.33.0 as installed',
    'axioms allowed: propext, Classical.choice, Quot.sound (audited with #print axioms on every property theorem)',
    'no sorry/admit/native_decide/bv_decide/implemented_by/unsafe/own axioms (textual scan every run)',
    'correspondence harness (Python) and Lean driver compiled by leanc execute the same definitions the theorems are about',
]


class Ctx:
    """State of one run of `./check Cxx tier`."""

    def __init__(self, pid, tier, seed):
        self.pid = pid
        self.tier = tier
        self.seed = seed
        self.rng = random.Random(seed * 1000003 + int(pid[1:]))
        self.t0 = time.time()
        self.broken = []          # obligations / correspondences that no longer check
        self.violations = []      # dicts: key, what, input, observed, expected
        self.disagreements = []   # model vs implementation
        self.cov = {}             # free-form coverage counters
        self.samples = []
        self.evaluations = 0
        self.nontrivial = set()
        self.rule = ''
        self.obligations = 0
        self.discharged = 0
        self.theorems = []
        self.checker_cmd = ''
        self.assumptions = []
        self.traces_validated = 0
        self.driver_ok = False
        self.notes = []

    def quick(self):
        return self.tier == 'quick'

    def count(self, key, n=1):
        self.cov[key] = self.cov.get(key, 0) + n

    def nontriv(self, obj):
        self.nontrivial.add(hashlib.sha1(json.dumps(obj, sort_keys=True, default=str).encode()).hexdigest())

    def sample(self, obj, limit=6):
        if len(self.samples) < limit:
            self.samples.append(obj)

    def violation(self, key, what, inp, observed=None, expected=None):
        """A concrete input on which the REAL code fails the property."""
        self.violations.append(dict(key=key, what=what, input=inp, observed=observed, expected=expected))

    def disagree(self, what, inp, impl, model):
        self.disagreements.append(dict(what=what, input=inp, impl=impl, model=model))

    def brk(self, name, detail=''):
        self.broken.append(dict(name=name, detail=detail[-4000:] if isinstance(detail, str) else detail))


# ---------------------------------------------------------------------------------------------
# Lean side
# ---------------------------------------------------------------------------------------------

class _Lock:
    def __enter__(self):
        os.makedirs(os.path.join(LEAN, '.lake'), exist_ok=True)
        self.f = open(os.path.join(LEAN, '.lake', 'verif.lock'), 'w')
        fcntl.flock(self.f, fcntl.LOCK_EX)
        return self

    def __exit__(self, *a):
        fcntl.flock(self.f, fcntl.LOCK_UN)
        self.f.close()


def run(cmd, cwd=None, timeout=3600, env=None):
    p = subprocess.run(cmd, cwd=cwd, stdout=subprocess.PIPE, stderr=subprocess.STDOUT, text=True,
                       timeout=timeout, env=env)
    return p.returncode, p.stdout


def strip_comments(src):
    """Remove Lean block comments (nested) and line comments."""
    out = []
    i, depth, n = 0, 0, len(src)
    while i < n:
        if src.startswith('/-', i):
            depth += 1
            i += 2
        elif depth and src.startswith('-/', i):
            depth -= 1
            i += 2
        elif depth:
            i += 1
        elif src.startswith('--', i):
            while i < n and src[i] != '\n':
                i += 1
        else:
            out.append(src[i])
            i += 1
    return ''.join(out)


def lean_files():
    res = []
    for root, dirs, files in os.walk(LEAN):
        dirs[:] = [d for d in dirs if d != '.lake']
        for f in files:
            if f.endswith('.lean'):
                res.append(os.path.join(root, f))
    return sorted(res)


def textual_scan(ctx):
    """Reject sorry/admit/native_decide/... and own axioms outside comments in every Lean file."""
    bad = []
    for f in lean_files():
        src = strip_comments(open(f).read())
        for tok in FORBIDDEN:
            if re.search(r'(?<![A-Za-z_.])' + re.escape(tok), src):
                bad.append('%s: %s' % (os.path.relpath(f, LEAN), tok.strip()))
        if re.search(r'^\s*axiom\s', src, re.M):
            bad.append('%s: axiom' % os.path.relpath(f, LEAN))
    if bad:
        ctx.brk('textual-scan', '; '.join(bad))
    return not bad


def theorem_names(path):
    """Fully qualified names of the theorems declared in a Props file (simple namespace tracking)."""
    src = strip_comments(open(path).read())
    ns = []
    names = []
    for line in src.split('\n'):
        m = re.match(r'^namespace\s+(\S+)', line)
        if m:
            ns.append(m.group(1))
            continue
        m = re.match(r'^end\s+(\S+)', line)
        if m and ns and ns[-1] == m.group(1):
            ns.pop()
            continue
        m = re.match(r'^(?:@\[[^\]]*\]\s*)?(?:protected\s+)?theorem\s+(\S+)', line)
        if m:
            names.append('.'.join(ns + [m.group(1)]))
    return names


def prove(ctx, modules=None, clean=False):
    """Step 1 of DESIGN §2.1: build the property's theorems + driver, audit axioms."""
    pid = ctx.pid
    props = os.path.join(LEAN, 'PeroVerif', 'Props', pid + '.lean')
    mods = ['PeroVerif.Props.' + pid] + (modules or [])
    ctx.checker_cmd = 'cd lean && lake build %s driver && lake env lean <audit:#print axioms>' % ' '.join(mods)
    with _Lock():
        textual_scan(ctx)
        if clean:
            # thorough: force re-elaboration of this property's proof module
            for ext in ('olean', 'ilean', 'trace', 'olean.hash', 'ilean.hash', 'c', 'c.hash'):
                p = os.path.join(LEAN, '.lake', 'build', 'lib', 'lean', 'PeroVerif', 'Props', pid + '.' + ext)
                if os.path.exists(p):
                    os.remove(p)
        rc, out = run(['lake', 'build', 'driver'], cwd=LEAN)
        ctx.driver_ok = (rc == 0 and os.path.exists(DRIVER))
        if not ctx.driver_ok:
            ctx.brk('lean-build:driver', out)
        names = theorem_names(props) if os.path.exists(props) else []
        ctx.theorems = names
        ctx.obligations = len(names)
        rc, out = run(['lake', 'build'] + mods, cwd=LEAN)
        if rc != 0:
            ctx.brk('lean-build:' + ','.join(mods), out)
            failed = set(re.findall(r'error: [^\n]*?(\S+\.lean):(\d+)', out))
            ctx.notes.append('lean build failed: %d error sites' % len(failed))
            return False
        # audit
        audit = os.path.join(LEAN, '.lake', 'audit_%s.lean' % pid)
        with open(audit, 'w') as f:
            f.write('import PeroVerif.Props.%s\n' % pid)
            for n in names:
                f.write('#print axioms %s\n' % n)
        rc, out = run(['lake', 'env', 'lean', audit], cwd=LEAN)
        if rc != 0:
            ctx.brk('audit', out)
            return False
        used = {}
        cur = None
        for m in re.finditer(r"'([^']+)' (depends on axioms: \[([^\]]*)\]|does not depend on any axioms)", out):
            ax = [a.strip() for a in (m.group(3) or '').replace('\n', ' ').split(',') if a.strip()]
            used[m.group(1)] = ax
        ok = 0
        for n in names:
            if n not in used:
                ctx.brk('audit:' + n, 'no #print axioms output')
            elif set(used[n]) - ALLOWED_AXIOMS:
                ctx.brk('audit:' + n, 'axioms: ' + ', '.join(used[n]))
            else:
                ok += 1
        ctx.discharged = ok
        ctx.cov['axioms_used'] = sorted({a for v in used.values() for a in v})
        if clean:
            rc, out = run(['lake', 'env', 'leanchecker', 'PeroVerif.Props.' + pid], cwd=LEAN, timeout=3000)
            ctx.cov['leanchecker'] = 'ok' if rc == 0 else 'FAILED'
            if rc != 0:
                ctx.brk('leanchecker', out)
    return ok == len(names) and len(names) > 0


class Driver:
    """Batch interface to the Lean model: list of requests -> list of replies (same order)."""

    def __init__(self, ctx):
        self.ctx = ctx

    def batch(self, reqs, timeout=1800):
        if not reqs:
            return []
        data = '\n'.join(json.dumps(r, separators=(',', ':')) for r in reqs) + '\n'
        p = subprocess.run([DRIVER], input=data, stdout=subprocess.PIPE, stderr=subprocess.PIPE, text=True,
                           timeout=timeout)
        lines = p.stdout.split('\n')
        if lines and lines[-1] == '':
            lines.pop()
        if p.returncode != 0 or len(lines) != len(reqs):
            raise RuntimeError('driver failed rc=%s replies=%d/%d stderr=%s' % (p.returncode, len(lines), len(reqs), p.stderr[-2000:]))
        return [json.loads(l) for l in lines]


# ---------------------------------------------------------------------------------------------
# helpers for harnesses
# ---------------------------------------------------------------------------------------------

def rat(x):
    """Exact value of a float / int / Fraction as [num, den]."""
    from fractions import Fraction
    f = Fraction(x)
    return [f.numerator, f.denominator]


def unrat(p):
    from fractions import Fraction
    return Fraction(p[0], p[1])


def shrink_list(xs, still_fails, max_steps=400):
    """Greedy delta-debugging on a list."""
    xs = list(xs)
    steps = 0
    changed = True
    while changed and steps < max_steps:
        changed = False
        n = len(xs)
        chunk = max(1, n // 2)
        while chunk >= 1 and steps < max_steps:
            i = 0
            while i < len(xs) and steps < max_steps:
                cand = xs[:i] + xs[i + chunk:]
                steps += 1
                if len(cand) < len(xs) and still_fails(cand):
                    xs = cand
                    changed = True
                else:
                    i += chunk
            chunk //= 2
    return xs


# ---------------------------------------------------------------------------------------------
# known findings, evidence, verdict
# ---------------------------------------------------------------------------------------------

def export(ctx):
    """Picklable result of one exploration stream."""
    return dict(violations=ctx.violations, disagreements=ctx.disagreements, broken=ctx.broken, cov=ctx.cov,
                evaluations=ctx.evaluations, nontrivial=ctx.nontrivial, traces=ctx.traces_validated, notes=ctx.notes,
                stream=getattr(ctx, 'stream', 0))


def merge(ctx, res):
    for v in res['violations']:
        if isinstance(v.get('input'), dict):
            v['input'].setdefault('_stream', res['stream'])
        ctx.violations.append(v)
    ctx.disagreements += res['disagreements']
    names = {b['name'] for b in ctx.broken}
    ctx.broken += [b for b in res['broken'] if b['name'] not in names]
    for k, v in res['cov'].items():
        if isinstance(v, (int, float)) and not isinstance(v, bool) and isinstance(ctx.cov.get(k, 0), (int, float)):
            ctx.cov[k] = ctx.cov.get(k, 0) + v
        else:
            ctx.cov.setdefault(k, v)
    ctx.evaluations += res['evaluations']
    ctx.nontrivial |= res['nontrivial']
    ctx.traces_validated += res['traces']
    ctx.notes += [n for n in res['notes'] if n not in ctx.notes]


def load_known():
    p = os.path.join(VERIF, 'known_findings.json')
    if not os.path.exists(p):
        return []
    return json.load(open(p)).get('findings', [])


def is_known(pid, v, known):
    for k in known:
        if k.get('property') != pid or k.get('status') != 'known':
            continue
        if k.get('key') == v['key']:
            return k
    return None


def write_evidence(ctx, n_viol):
    ev = {
        'property_id': ctx.pid,
        'tier': ctx.tier,
        'seed': ctx.seed,
        'level': 'proof',
        'coverage': {
            'obligations': ctx.obligations,
            'discharged': ctx.discharged,
            'checker_cmd': ctx.checker_cmd,
            'trusted_base': TRUSTED_BASE + ctx.assumptions,
            'theorems': ctx.theorems,
            'evaluations': ctx.evaluations,
            'distinct_nontrivial': len(ctx.nontrivial),
            'rule': ctx.rule,
            'samples': ctx.samples,
            'traces_validated_against_impl': ctx.traces_validated,
            'disagreements_model_vs_impl': len(ctx.disagreements),
            'broken_obligations': [b['name'] for b in ctx.broken],
            'notes': ctx.notes,
        },
        'assumptions': ctx.assumptions,
        'wall_s': round(time.time() - ctx.t0, 2),
        'violations': n_viol,
    }
    ev['coverage'].update(ctx.cov)
    os.makedirs(os.path.join(VERIF, 'evidence'), exist_ok=True)
    with open(os.path.join(VERIF, 'evidence', ctx.pid + '.json'), 'w') as f:
        json.dump(ev, f, indent=1, default=str)
        f.write('\n')


def _san(o):
    """JSON-safe copy: dict keys to str, tuples/sets to lists, NumPy scalars/arrays to Python."""
    if isinstance(o, dict):
        return {(k if isinstance(k, (str, int, float, bool)) or k is None else str(k)): _san(v) for k, v in o.items()}
    if isinstance(o, (list, tuple, set, frozenset)):
        return [_san(v) for v in o]
    if hasattr(o, 'tolist') and not isinstance(o, (str, bytes)):
        try:
            return _san(o.tolist())
        except Exception:
            return str(o)
    return o


def finish(ctx):
    """Steps 4-6 of DESIGN §2.1. Returns the exit code."""
    known = load_known()
    ctx.violations = _san(ctx.violations)
    ctx.disagreements = _san(ctx.disagreements)
    ctx.broken = _san(ctx.broken)
    ctx.samples = _san(ctx.samples)
    os.makedirs(os.path.join(VERIF, 'replays'), exist_ok=True)
    new = []
    seen_known = {}
    for v in ctx.violations:
        k = is_known(ctx.pid, v, known)
        if k is not None:
            seen_known[k['key']] = k
        else:
            new.append(v)
    for k in seen_known.values():
        print('KNOWN-FINDING: property=%s %s' % (ctx.pid, k.get('what', k['key'])))
    rc = 0
    n_viol = 0
    if new:
        # one replay file per run, first (smallest) failing input first
        new.sort(key=lambda v: len(json.dumps(v['input'], default=str)))
        path = os.path.join('replays', '%s-%s-%d.json' % (ctx.pid, ctx.tier, ctx.seed))
        with open(os.path.join(VERIF, path), 'w') as f:
            json.dump({'property': ctx.pid, 'kind': 'failing-input', 'violations': new[:20],
                       'broken': ctx.broken, 'disagreements': ctx.disagreements[:10],
                       'replay': './check %s quick --replay %s' % (ctx.pid, path)}, f, indent=1, default=str)
        for v in new[:5]:
            print('  failing input: %s :: %s' % (v['what'], json.dumps(v['input'], default=str)[:300]))
        print('VIOLATION property=%s replay=%s' % (ctx.pid, path))
        rc = 1
        n_viol = len(new)
    elif ctx.broken or ctx.disagreements:
        path = os.path.join('replays', '%s-%s-%d.json' % (ctx.pid, ctx.tier, ctx.seed))
        with open(os.path.join(VERIF, path), 'w') as f:
            json.dump({'property': ctx.pid, 'kind': 'broken-obligation',
                       'broken': ctx.broken, 'disagreements': ctx.disagreements[:20],
                       'note': 'a theorem / translator obligation / model-implementation correspondence no longer '
                               'checks; the search on the real code found no input violating the property'},
                      f, indent=1, default=str)
        for b in ctx.broken[:5]:
            print('  broken: %s' % b['name'])
        for d in ctx.disagreements[:5]:
            print('  disagreement: %s :: %s' % (d['what'], json.dumps(d['input'], default=str)[:300]))
        print('VIOLATION property=%s replay=%s no-failing-input-found' % (ctx.pid, path))
        rc = 1
        n_viol = 1
    write_evidence(ctx, n_viol)
    if rc == 0:
        print('OK property=%s tier=%s seed=%d obligations=%d/%d evaluations=%d nontrivial=%d wall=%.1fs' % (
            ctx.pid, ctx.tier, ctx.seed, ctx.discharged, ctx.obligations, ctx.evaluations, len(ctx.nontrivial),
            time.time() - ctx.t0))
    return rc
