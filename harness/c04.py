"""C04 — greedy transcription = CTC collapse of the arg-max path (DESIGN §5-C04).

Real code: greedy_decode_ctc (batched, torch), GreedyDecoder (numpy + groupby), greedy_filtration.
Model: Greedy.engineLine / standalone / filtration / Ctc.collapse on Ctc.argmaxFirst paths.
"""
import itertools

import os

import numpy as np

from . import common


def ref_collapse(am, blank):
    out = []
    prev = None
    for a in am:
        if a != blank and a != prev:
            out.append(a)
        prev = a
    return out


def run(ctx):
    import torch
    from pero_ocr.ocr_engine.pytorch_ocr_engine import greedy_decode_ctc
    from pero_ocr.decoding.decoders import GreedyDecoder, BLANK_SYMBOL
    from pero_ocr.char_confidences import greedy_filtration
    rng = ctx.rng
    ctx.rule = ('integer-valued score tensors N<=4, C in 2..6, T in 1..12 with many ties, leading/trailing blanks, all-blank lines, '
                'repeats split by blanks, first frame non-blank, last class adjacent to blank; float32 frames with one-ulp margins / exact ties and deep-negative raw scores; exhaustive one-hot arg-max '
                'patterns for C=3, T<=5(quick)/7(thorough); non-trivial = collapse differs from the raw arg-max path and is non-empty')
    ctx.assumptions += ['torch.argmax / numpy argmax return the FIRST maximum on ties (exercised with integer ties)',
                        'log_softmax / softmax of small integer scores preserve order and ties']
    batches = []
    # exhaustive arg-max patterns for C = 3
    Tmax = 5 if ctx.quick() else 7
    C = 3
    pats = [list(p) for T in range(1, Tmax + 1) for p in itertools.product(range(C), repeat=T)]
    for i in range(0, len(pats), 4):
        grp = pats[i:i + 4]
        T = max(len(p) for p in grp)
        grp = [p for p in grp if len(p) == T]
        arr = np.zeros((len(grp), C, T))
        for n, p in enumerate(grp):
            for t, c in enumerate(p):
                arr[n, c, t] = 5
        batches.append(('exh', arr))
    ctx.cov['exhaustive_scope'] = 'all arg-max patterns C=3, T<=%d (one-hot scores)' % Tmax
    nrand = 300 if ctx.quick() else 6000
    for _ in range(nrand):
        N = rng.randrange(1, 5)
        C = rng.randrange(2, 7)
        T = rng.randrange(1, 13)
        mode = rng.random()
        if mode < 0.4:
            arr = np.array([[[rng.randrange(0, 3) for _ in range(T)] for _ in range(C)] for _ in range(N)], dtype=float)  # many ties
        elif mode < 0.7:
            arr = np.array([[[rng.randrange(-8, 9) for _ in range(T)] for _ in range(C)] for _ in range(N)], dtype=float)
        else:
            # structured path: runs of symbols and blanks
            arr = np.zeros((N, C, T))
            for n in range(N):
                t = 0
                while t < T:
                    c = rng.choice([C - 1, C - 1, rng.randrange(C), max(0, C - 2)])
                    ln = rng.randrange(1, 4)
                    arr[n, c, t:t + ln] = 7
                    t += ln
        batches.append(('rnd', arr))
    reqs, impl, keys = [], [], []
    for kind, arr in batches:
        N, C, T = arr.shape
        chars = [chr(97 + i) for i in range(C - 1)]
        if rng.random() < 0.25:
            # a character table with entries outside Unicode NFC (letter + combining mark, Greek question mark, Angstrom sign, Ohm sign)
            odd = ['e\u0301', '\u037e', '\u212b', '\u2126', 'c\u030c']
            chars = [odd[i % len(odd)] if rng.random() < 0.6 else ch for i, ch in enumerate(chars)]
            if len(set(chars)) != len(chars):
                chars = [chr(97 + i) for i in range(len(chars))]
        try:
            eng = greedy_decode_ctc(torch.from_numpy(arr.copy()).float(), chars + ['​'])
        except Exception as e:
            ctx.violation('engine-raises', 'greedy_decode_ctc raised %r' % (e,), dict(scores=arr.tolist()))
            continue
        eng = list(eng)
        if len(eng) != N:
            ctx.violation('engine-batch-length', 'greedy_decode_ctc returned %d transcriptions for a batch of %d lines' % (len(eng), N),
                          dict(scores=arr.astype(int).tolist()), eng)
            eng = eng + [None] * (N - len(eng))
        dec = GreedyDecoder(chars + [BLANK_SYMBOL])
        for n in range(N):
            ctx.evaluations += 1
            ctx.count('kind:' + kind)
            frames = arr[n].T   # T × C
            am = [int(np.argmax(f)) for f in frames]
            exp = ref_collapse(am, C - 1)
            exp_s = ''.join(chars[c] for c in exp)
            inp = dict(C=C, frames=frames.astype(int).tolist(), line_in_batch=n, batch_size=N)
            lsm = frames - np.log(np.sum(np.exp(frames), axis=1, keepdims=True))
            try:
                st = dec(lsm).best_hyp()
            except Exception as e:
                st = 'EXC:' + repr(e)
            probs = np.exp(lsm)
            try:
                fl, _ = greedy_filtration(probs, chars + ['​'])
            except Exception as e:
                fl = 'EXC:' + repr(e)
            if eng[n] != exp_s:
                ctx.violation('engine', 'engine greedy decoder != CTC collapse of the arg-max path', inp, eng[n], exp_s)
            if st != exp_s:
                ctx.violation('standalone', 'stand-alone GreedyDecoder != CTC collapse of the arg-max path', inp, st, exp_s)
            if fl != exp_s:
                ctx.violation('filtration', 'greedy_filtration text != CTC collapse of the arg-max path', inp, fl, exp_s)
            if exp and exp != am:
                ctx.nontriv([C, am])
            if kind == 'rnd':
                ctx.sample(dict(C=C, argmax=am, text=eng[n]), limit=5)
            reqs.append(dict(p='C04', op='decode', C=C, frames=frames.astype(int).tolist()))
            impl.append((am, eng[n], st, fl, chars))
    # numerically extreme score tensors (the property says ALL score tensors): float32 frames whose two best classes differ
    # by one ulp, and raw (unnormalised) scores far below zero where exp() underflows; engine and stand-alone decoder on the
    # SAME tensor, both against the collapse of the arg-max of the scores themselves
    for _ in range(60 if ctx.quick() else 1500):
        C = rng.randrange(2, 6)
        T = rng.randrange(1, 9)
        chars = [chr(97 + i) for i in range(C - 1)]
        kind = rng.choice(['one-ulp', 'deep-negative'])
        if kind == 'one-ulp':
            base = np.array([[rng.uniform(-3, -0.3) for _ in range(C)] for _ in range(T)], dtype=np.float32)
            for t in range(T):
                i, j = rng.sample(range(C), 2)
                top = np.float32(rng.uniform(-1.2, -0.6))
                base[t, :] = np.minimum(base[t, :], top - np.float32(1.0))
                base[t, i] = top
                base[t, j] = np.nextafter(top, np.float32(0)) if rng.random() < 0.7 else top   # one ulp above, or an exact tie
            frames = base
        else:
            frames = np.array([[rng.choice([-110.0, -150.0, -200.0, -104.5, -300.0, -1000.0]) - rng.random() for _ in range(C)] for _ in range(T)], dtype=np.float32)
        am = [int(np.argmax(f)) for f in frames]
        exp_s = ''.join(chars[c] for c in ref_collapse(am, C - 1))
        inp = dict(C=C, frames=[[float(x) for x in f] for f in frames], dtype='float32', kind=kind)
        ctx.evaluations += 1
        ctx.count('kind:' + kind)
        try:
            eng = list(greedy_decode_ctc(torch.from_numpy(frames.T[None].copy()), chars + ['\u200b']))
            st = GreedyDecoder(chars + [BLANK_SYMBOL])(frames.copy(), max_unnormalization=np.inf).best_hyp()
        except Exception as e:
            ctx.violation('extreme-raises:' + type(e).__name__, 'greedy decoders raised %r on an extreme score tensor' % (e,), inp)
            continue
        if len(eng) != 1 or eng[0] != exp_s:
            ctx.violation('engine:' + kind, 'engine greedy decoder != CTC collapse of the arg-max path (extreme scores)', inp, eng, exp_s)
        if st != exp_s:
            ctx.violation('standalone:' + kind, 'stand-alone GreedyDecoder != CTC collapse of the arg-max path (extreme scores)', inp, st, exp_s)
    # ---- the whole engine (PytorchEngineLineOCR.process_lines -> run_ocr -> greedy_decode_ctc): the text returned for a line is
    # the CTC collapse of the arg-max path of the network output RETURNED for that line, and what the stand-alone decoder reads
    # from it - for every line of every batch, also for a network that does not answer "blank" on padding
    import shutil, tempfile
    from . import stubs
    tmp = tempfile.mkdtemp(prefix='verif_c04_')
    try:
        engines = {}
        for it in range(40 if ctx.quick() else 300):
            pad_class = rng.choice([-1, 0, -2, -2])
            bs = rng.choice([2, 4, 8])
            if (pad_class, bs) not in engines:
                d = os.path.join(tmp, 'e%d_%d' % (pad_class, bs))
                os.makedirs(d, exist_ok=True)
                engines[(pad_class, bs)] = stubs.make_engine(d, batch_size=bs, pad_class=pad_class, gain=rng.choice([0.6, 1.5]))
            eng, chars = engines[(pad_class, bs)]
            ws = [rng.choice([rng.randrange(8, 60), rng.randrange(60, 400)]) for _ in range(rng.randrange(1, 7))]
            lines = [stubs.random_line(rng, w) for w in ws]
            inp = dict(stage='process_lines', widths=ws, batch_size=bs, padding_answer={-1: 'blank', -2: 'characters 0 and 1 in turn'}.get(pad_class, 'character %d' % pad_class))
            ctx.evaluations += 1
            try:
                tr, lg, co = eng.process_lines(lines, sparse_logits=False)
            except Exception as e:
                ctx.violation('engine-lines-raises:' + type(e).__name__, 'process_lines raised %r' % (e,), inp)
                continue
            dec = GreedyDecoder(list(chars) + [BLANK_SYMBOL])
            for i in range(len(lines)):
                z = np.asarray(lg[i], dtype=np.float64)
                am = [int(np.argmax(f)) for f in z]
                margins = np.sort(z, axis=1)
                if z.shape[1] > 1 and (margins[:, -1] - margins[:, -2]).min(initial=1.0) < 1e-5:
                    ctx.count('engine_lines_ties_skipped')
                    continue
                exp_s = ''.join(chars[c] for c in ref_collapse(am, len(chars)))
                lp = z - np.logaddexp.reduce(z, axis=1)[:, None]
                st = dec(lp).best_hyp()
                if tr[i] != exp_s or st != exp_s:
                    ctx.violation('engine-lines', "the engine's text for a line is not the CTC collapse of the arg-max path of the logits returned "
                                  'for that line / differs from the stand-alone decoder on them', inp, [i, tr[i], st], exp_s)
                    break
            if len(set(ws)) > 1 and pad_class != -1:
                ctx.nontriv(inp)
            ctx.count('engine_lines_cases')
    finally:
        shutil.rmtree(tmp, ignore_errors=True)
    if ctx.driver_ok:
        rep = common.Driver(ctx).batch(reqs)
        for r, (am, e, s, f, chars), q in zip(rep, impl, reqs):
            m = r.get('ok')
            if m is None:
                ctx.disagree('C04 driver error', q, None, r)
                continue
            txt = lambda ids: ''.join(chars[c] for c in ids)
            if m['argmax'] != am:
                ctx.disagree('C04.argmaxFirst != numpy argmax', q, am, m['argmax'])
            elif txt(m['engine']) != e or txt(m['standalone']) != s or txt(m['filtration']) != f:
                ctx.disagree('C04 decoders model != implementation', q, [e, s, f], [txt(m['engine']), txt(m['standalone']), txt(m['filtration'])])
            else:
                ctx.traces_validated += 1
    else:
        ctx.notes.append('driver unavailable: correspondence skipped, oracle only')


def replay(data):
    import torch
    from pero_ocr.ocr_engine.pytorch_ocr_engine import greedy_decode_ctc
    for v in data.get('violations', []):
        inp = v['input']
        if 'scores' in inp:
            arr = np.array(inp['scores'], dtype=float)
            chars = [chr(97 + i) for i in range(arr.shape[1] - 1)]
            try:
                out = greedy_decode_ctc(torch.from_numpy(arr.copy()).float(), chars + ['\u200b'])
                print('replay', v['key'], 'batch of', arr.shape[0], 'lines ->', list(out))
            except Exception as e:
                print('replay', v['key'], 'raises', repr(e))
            continue
        fr = np.array(inp['frames'], dtype=np.float32 if inp.get('dtype') == 'float32' else float)
        C = inp['C']
        if inp.get('dtype') == 'float32':
            from pero_ocr.decoding.decoders import GreedyDecoder, BLANK_SYMBOL
            chars = [chr(97 + i) for i in range(C - 1)]
            print('replay', v['key'], 'argmax', [int(np.argmax(f)) for f in fr], 'stand-alone ->',
                  GreedyDecoder(chars + [BLANK_SYMBOL])(fr.copy(), max_unnormalization=np.inf).best_hyp())
        chars = [chr(97 + i) for i in range(C - 1)]
        out = greedy_decode_ctc(torch.from_numpy(fr.T[None].copy()).float(), chars + ['​'])
        am = [int(np.argmax(f)) for f in fr]
        print('replay', v['key'], 'argmax path', am, 'engine ->', out[0], 'collapse ->', ''.join(chars[c] for c in ref_collapse(am, C - 1)))
    return 1 if data.get('violations') else 0
