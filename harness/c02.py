"""C02 — CTC prefix beam search never over-counts and is exact when unpruned (DESIGN §5-C02).

Domain D3: rows are exact rationals (integer weights / row sum); the real decoder gets their float logs.
Correspondence: hypothesis set equal, scores within 1e-7 relative; near-ties at the cut are skipped.
Oracle on the real code: brute-force CTC masses over all C^T paths; textbook prefix beam search.
"""
import math
from fractions import Fraction as F

import numpy as np

from . import common
from . import pbcommon as pb


def translate(ctx):
    """Constants of the decoder read from the source: the -10 pre-selection threshold and the 1e-5 tolerance."""
    import ast
    import os
    try:
        src = open(os.path.join(common.REPO, 'pero_ocr/decoding/decoders.py')).read()
        tree = ast.parse(src)
        thr = tol = None
        for n in ast.walk(tree):
            if isinstance(n, ast.FunctionDef) and n.name == 'select_relevant_logits':
                cmp = [c for c in ast.walk(n) if isinstance(c, ast.Compare)]
                if len(cmp) == 1 and isinstance(cmp[0].ops[0], ast.Gt):
                    thr = ast.literal_eval(cmp[0].comparators[0])
            if isinstance(n, ast.FunctionDef) and n.name == '__call__':
                for a, d in zip(reversed(n.args.args), reversed(n.args.defaults)):
                    if a.arg == 'max_unnormalization':
                        tol = ast.literal_eval(d)
        if thr is None or tol is None:
            # the same constants read from the live objects (robust to restructuring)
            import inspect
            from pero_ocr.decoding import decoders as _dm
            if tol is None:
                tol = inspect.signature(_dm.CTCPrefixLogRawNumpyDecoder.__call__).parameters['max_unnormalization'].default
            if thr is None:
                probe = np.array([-9.999, -10.0, -10.001])
                if list(_dm.select_relevant_logits(probe)[0]) == [0]:
                    thr = -10
        ctx.cov['translated_constants'] = dict(preselect_threshold=thr, max_unnormalization=tol)
        if thr != -10 or tol != 1e-5:
            ctx.brk('translator:decoder-constants', 'expected threshold -10 / tolerance 1e-5, found %r / %r' % (thr, tol))
    except Exception as e:
        ctx.brk('translator:decoder-constants', repr(e))


SELECTOR_ORDER = ['ascending']      # how the pre-selection lists the relevant symbols: any order is legal (the selector is a constructor argument)


def run_real(dec_cls, blank_sym, rows, k, pruning, lm=None, **kw):
    C = len(rows[0])
    letters = [chr(97 + i) for i in range(C - 1)] + [blank_sym]
    order = SELECTOR_ORDER[0]
    if order == 'ascending':
        if pruning:
            dec = dec_cls(letters, k, lm=lm, **kw)
        else:
            dec = dec_cls(letters, k, lm=lm, relevant_logits_selector=lambda x: np.nonzero(x > -np.inf), **kw)
    else:
        # the same pre-selection (threshold -10 / everything) handed over most-probable-first or in a fixed scrambled order
        thr = -10.0 if pruning else -np.inf

        def sel(x, thr=thr, order=order):
            idx = np.nonzero(x > thr)[0]
            if order == 'descending':
                idx = idx[np.argsort(-x[idx], kind='stable')]
            else:
                idx = idx[::-1]
            return (idx,)
        dec = dec_cls(letters, k, lm=lm, relevant_logits_selector=sel, **kw)
    return dec, letters


def traced_call(dec, L, **kw):
    """Run the real decoder and record, without touching its source, the beam it holds at the START of every frame:
    compute_Pb is called exactly once per frame with the current (Pb, Pnb); find_new_prefixes returns the new prefixes."""
    from pero_ocr.decoding import decoders as dm
    if not (hasattr(dec, 'compute_Pb') and hasattr(dec, 'compute_Plm') and hasattr(dm, 'find_new_prefixes')):
        return dec(L, **kw), None        # the observation points are gone (refactoring): final results are still compared
    frames = []
    cur = {'prefixes': [()]}
    orig_pb, orig_fnp = dec.compute_Pb, dm.find_new_prefixes

    def pbw(Pb_old, Pnb_old, P_blank):
        frames.append(([tuple(int(c) for c in p) for p in cur['prefixes']], np.array(Pb_old, dtype=float), np.array(Pnb_old, dtype=float)))
        return orig_pb(Pb_old, Pnb_old, P_blank)

    def fnp(*a, **k):
        r = orig_fnp(*a, **k)
        cur['prefixes'] = [tuple(p) for p in r[0]]
        return r
    plm = {}
    orig_plm = dec.compute_Plm

    def plmw(Plm_old, lm_preds):
        plm[len(frames) - 1] = np.array(Plm_old, dtype=float)
        return orig_plm(Plm_old, lm_preds)
    dec.compute_Pb, dm.find_new_prefixes, dec.compute_Plm = pbw, fnp, plmw
    try:
        bag = dec(L, **kw)
    finally:
        for name in ('compute_Pb', 'compute_Plm'):
            if name in dec.__dict__:
                del dec.__dict__[name]
        dm.find_new_prefixes = orig_fnp
    if kw.get('return_h'):
        return bag, [f + (plm.get(i),) for i, f in enumerate(frames)]
    return bag, frames


def hyps_of(bag):
    return [(tuple(ord(ch) - 97 for ch in h.transcript), float(h.vis_sc), None if h.lm_sc is None else float(h.lm_sc)) for h in bag]


def close(a, b, rel=1e-7):
    return abs(a - b) <= rel * max(abs(a), abs(b), 1e-300)


def run(ctx):
    from pero_ocr.decoding.decoders import CTCPrefixLogRawNumpyDecoder, BLANK_SYMBOL
    rng = ctx.rng
    ctx.rule = ('row-normalised matrices from integer weights (T<=7, C<=5): ties, near-deterministic rows, frames with every '
                'non-blank below the pre-selection threshold, zeros, repeated symbols with/without separating blank; '
                'k in {1,2,3,5,100}; default and non-pruning selector; unnormalised inputs. non-trivial = >= 2 returned hypotheses '
                'or a cut that dropped a positive candidate')
    ctx.assumptions += ['floating-point logaddexp/exp/log agree with exact arithmetic within 1e-7 relative (D3)',
                        'np.argpartition returns some top-k set (IsTopK); cases with cut margin < 1e-6 are skipped']
    n = 900 if ctx.quick() else 12000
    reqs, impl = [], []
    treqs, timpl = [], []
    for it in range(n):
        rows = pb.gen_matrix(rng)
        if pb.near_threshold(rows):
            ctx.count('skipped_near_threshold')
            continue
        T, C = len(rows), len(rows[0])
        blank = C - 1
        k = rng.choice([1, 2, 3, 5, 100])
        pruning = rng.random() < 0.6
        P = pb.to_probs(rows)
        L = pb.to_logits(rows)
        unnorm = rng.random() < 0.06
        if unnorm:
            t = rng.randrange(T)
            L = L.copy()
            L[t] = L[t] + rng.choice([0.01, -0.02, 0.5])
        ctx.evaluations += 1
        SELECTOR_ORDER[0] = rng.choice(['ascending', 'ascending', 'descending', 'reversed'])
        inp = dict(weights=rows, k=k, pruning_selector=pruning, unnormalised=unnorm, selector_order=SELECTOR_ORDER[0])
        dec, letters = run_real(CTCPrefixLogRawNumpyDecoder, BLANK_SYMBOL, rows, k, pruning)
        SELECTOR_ORDER[0] = 'ascending'
        ctx.count('selector_order:' + inp['selector_order'])
        if rng.random() < 0.3:   # the decoder object has decoded another line before
            inp['decoder_reused'] = True
            try:
                dec(pb.to_logits(pb.gen_matrix(rng, C=C)))
            except Exception:
                pass
        trace = None
        try:
            if rng.random() < 0.5:
                bag, trace = traced_call(dec, L)
            else:
                bag = dec(L)
            got = hyps_of(bag)
        except ValueError as e:
            got = 'reject'
        except AssertionError as e:
            ctx.violation('assertion', 'decoder raised AssertionError (duplicate prefixes in the beam)', inp)
            continue
        if unnorm:
            if got != 'reject':
                ctx.violation('unnormalised-accepted', 'unnormalised input was decoded instead of rejected', inp)
            ctx.count('unnormalised')
            continue
        if got == 'reject':
            ctx.violation('normalised-rejected', 'row-normalised input rejected', inp)
            continue
        # ---------- oracle on the real output
        trs = [h[0] for h in got]
        if len(set(trs)) != len(trs):
            ctx.violation('duplicate-transcripts', 'returned hypotheses are not pairwise distinct', inp, got)
        small = C ** T <= 20000
        if small:
            ms = pb.masses(P, blank)
            for tr, vis, _ in got:
                m = float(ms.get(tr, 0))
                if math.exp(vis) > m * (1 + 1e-7) + 1e-300:
                    ctx.violation('over-count', 'visual score exceeds the true CTC probability of the transcript', inp, [tr, math.exp(vis)], m)
            # 'nothing pruned' = the reference search (same k, no pre-selection) never had more than k candidates in any
            # frame (its cut margin is None); len(ms) <= k alone is not enough: intermediate prefixes that die later count
            _, nocut = pb.ref_prefix_beam(P, k, F(0), blank)
            if not pruning and nocut is None:
                # unpruned: every transcript of non-zero probability, with its exact mass
                gotd = {tr: vis for tr, vis, _ in got}
                for tr, m in ms.items():
                    if tr not in gotd:
                        ctx.violation('unpruned-missing', 'unpruned search misses a transcript of non-zero probability', inp, list(tr), float(m))
                    elif not close(math.exp(gotd[tr]), float(m)):
                        ctx.violation('unpruned-inexact', 'unpruned score differs from the CTC probability', inp, [tr, math.exp(gotd[tr])], float(m))
                ctx.count('unpruned_exact_checked')
        thr = F(pb.E10) if pruning else F(0)
        ref, margin = pb.ref_prefix_beam(P, k, thr, blank)
        if len(got) > k:
            ctx.violation('beam-size', 'more than k hypotheses returned', inp, len(got), k)
        if margin is not None and margin < F(1, 10 ** 6):
            # (near-)tie at the cut: the result must be the outcome of SOME way of breaking the ties
            legal = pb.ref_prefix_beam_all(P, k, thr, blank)
            if legal is None:
                ctx.count('ties_skipped')
            else:
                ctx.count('ties_enumerated')
                gotd = {tr: vis for tr, vis, _ in got}
                match = [b for b in legal if set(b) == set(gotd)]
                if not match:
                    ctx.violation('not-prefix-beam-search:tie', 'result is not the outcome of prefix beam search keeping k prefixes under any tie-break',
                                  inp, sorted(gotd), [sorted(b) for b in legal[:6]])
                elif not any(all(close(math.exp(gotd[tr]), float(a + b2)) for tr, (a, b2) in b.items()) for b in match):
                    ctx.violation('score-mismatch:tie', 'scores differ from prefix beam search under every tie-break', inp,
                                  {str(t): math.exp(v) for t, v in gotd.items()})
        else:
            gotd = {tr: vis for tr, vis, _ in got}
            if set(gotd) != set(ref):
                ctx.violation('not-prefix-beam-search', 'result differs from frame-synchronous prefix beam search keeping the k best prefixes', inp, sorted(gotd), sorted(ref))
            else:
                for tr, (a, b) in ref.items():
                    if not close(math.exp(gotd[tr]), float(a + b)):
                        ctx.violation('score-mismatch', 'score differs from prefix beam search', inp, [tr, math.exp(gotd[tr])], float(a + b))
        if len(got) >= 2 or margin is not None:
            ctx.nontriv(inp)
        ctx.sample(dict(inp, hyps=[[list(t), v] for t, v, _ in got]), limit=4)
        reqs.append(dict(p='C02', op='decode', M=[[pb.rat(x) for x in r] for r in P], k=k, thr=pb.rat(thr), tol=pb.rat(pb.TOL), lm=None))
        impl.append((inp, got))
        if trace is not None and len(trace) == T:
            treqs.append(dict(p='C02', op='trace', M=[[pb.rat(x) for x in r] for r in P], k=k, thr=pb.rat(thr), lm=None))
            timpl.append((inp, trace))
    # unnormalised rejection in the model
    if ctx.driver_ok:
        rep = common.Driver(ctx).batch(reqs)
        for r, (inp, got) in zip(rep, impl):
            m = r.get('ok')
            if m is None:
                ctx.disagree('C02 model rejects / errors', inp, 'decoded', r)
                continue
            mg = m['margin']
            if mg is not None and F(mg[0], mg[1]) < F(1, 10 ** 6):
                ctx.count('model_ties_skipped')
                continue
            md = {tuple(h[0]): F(h[1][0], h[1][1]) for h in m['hyps']}
            gd = {tr: vis for tr, vis, _ in got}
            if set(md) != set(gd):
                ctx.disagree('C02 hypothesis sets differ', inp, sorted(gd), sorted(md))
            elif any(not close(math.exp(gd[t]), float(md[t])) for t in md):
                ctx.disagree('C02 scores differ', inp, {str(t): math.exp(v) for t, v in gd.items()}, {str(t): float(v) for t, v in md.items()})
            else:
                ctx.traces_validated += 1
        # per-frame correspondence: the beam the real decoder holds at the start of frame t+1 (prefixes with Pb and Pnb separately)
        # = the model's beam after frame t, until the first (near-)tie at a cut
        trep = common.Driver(ctx).batch(treqs)
        for r, (inp, trace) in zip(trep, timpl):
            m = r.get('ok')
            if m is None:
                ctx.disagree('C02 trace: model error', inp, None, r)
                continue
            okc = True
            for t in range(len(trace) - 1):
                mg = m[t]['margin']
                if mg is not None and F(mg[0], mg[1]) < F(1, 10 ** 6):
                    ctx.count('trace_frames_skipped_after_tie', len(trace) - 1 - t)
                    break
                pre, Pb_, Pnb_ = trace[t + 1]
                mb = {tuple(e[0]): (float(F(*e[1])), float(F(*e[2]))) for e in m[t]['beam']}
                gb = {p: (math.exp(a), math.exp(b)) for p, a, b in zip(pre, Pb_, Pnb_)}
                if set(mb) != set(gb) or any(not close(gb[p][0], mb[p][0]) or not close(gb[p][1], mb[p][1]) for p in mb):
                    ctx.disagree('C02 trace: beam after frame %d differs (prefix -> (Pb, Pnb))' % t, inp,
                                 {str(p): v for p, v in sorted(gb.items())}, {str(p): v for p, v in sorted(mb.items())})
                    okc = False
                    break
                ctx.count('trace_frames_compared')
            if okc:
                ctx.traces_validated += 1
        # the model must reject what the code rejects
        rej = common.Driver(ctx).batch([dict(p='C02', op='decode', M=[[[1, 2], [1, 4]], [[1, 2], [1, 2]]], k=2, thr=[0, 1], tol=pb.rat(pb.TOL), lm=None)])
        if rej[0].get('err') != 'reject':
            ctx.disagree('C02 model accepts an unnormalised matrix', 'rows [1/2,1/4]', 'reject', rej[0])
    else:
        ctx.notes.append('driver unavailable: correspondence skipped, oracle only')


def replay(data):
    from pero_ocr.decoding.decoders import CTCPrefixLogRawNumpyDecoder, BLANK_SYMBOL
    for v in data.get('violations', []):
        inp = v['input']
        rows = inp['weights']
        dec, _ = run_real(CTCPrefixLogRawNumpyDecoder, BLANK_SYMBOL, rows, inp['k'], inp['pruning_selector'])
        try:
            got = hyps_of(dec(pb.to_logits(rows)))
        except Exception as e:
            got = repr(e)
        print('replay', v['key'], inp, '->', got, '| masses:', {k: float(x) for k, x in pb.masses(pb.to_probs(rows), len(rows[0]) - 1).items()} if len(rows[0]) ** len(rows) <= 20000 else '')
    return 1 if data.get('violations') else 0
