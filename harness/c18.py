"""C18 — detection maps decode to one line per ridge, in original-image coordinates (DESIGN §5-C18, PARTIAL).

Proof side (Lean, Model/Rot90): for every H, W >= 1, every rotation and every pixel of the rotated image, rotate_layout
maps its coordinates to within one pixel (each axis) of the original pixel; exact correspondence with the real
np.rot90 (index-stamped images) and the real LayoutEngine.rotate_layout on non-square shapes.
NOT decided by proof: the ridge decoding of LayoutEngine.parse (scipy.ndimage smoothing, non-maxima suppression,
labelling, percentiles) - judged by the oracle below on synthetic maps (supporting evidence only).
"""
import numpy as np

from . import common


def make_engine():
    from pero_ocr.layout_engines.cnn_layout_engine import LayoutEngine
    eng = object.__new__(LayoutEngine)
    eng.line_end_weight = 1.0
    eng.vertical_line_connection_range = 5
    eng.smooth_line_predictions = True
    eng.line_detection_threshold = 0.2
    eng.paragraph_line_threshold = 0.3
    return eng


def run(ctx):
    rng = ctx.rng
    eng = make_engine()
    ctx.rule = ('rotation: all rotations 0..3 on non-square shapes H,W in 1..7 (exhaustive over pixels) and random larger shapes; '
                'ridges: synthetic maps with 1..5 straight or gently sloped ridges, length >= 6 px, vertical separation >= 15 px, '
                'random ascender/descender values, with/without end-point responses, down-sampling 1..8. non-trivial = non-square shape '
                'with rot in {1,3}, or map with >= 2 ridges')
    ctx.assumptions += ['PARTIAL: scipy.ndimage (convolve, grey_dilation, binary_dilation, label), nonmaxima_suppression and np.percentile '
                        'are not modelled; the ridge clause is oracle-only']
    reqs, impl = [], []
    shapes = [(h, w) for h in range(1, 8) for w in range(1, 8)] if not ctx.quick() else [(h, w) for h in range(1, 6) for w in range(1, 6) if (h + w) % 2 == 1 or h == w == 3]
    shapes += [(rng.randrange(2, 40), rng.randrange(2, 40)) for _ in range(10 if ctx.quick() else 80)]
    for (H, W) in shapes:
        for rot in range(4):
            img = np.arange(H * W).reshape(H, W)
            R = np.rot90(img, k=rot)
            ctx.evaluations += 1
            inp = dict(H=H, W=W, rot=rot)
            # every pixel of the rotated image as a one-point "baseline"
            pts = [np.array([[float(j), float(i)]]) for i in range(R.shape[0]) for j in range(R.shape[1])]
            p_list, b_list, t_list = eng.rotate_layout([p.copy() for p in pts], [p.copy() for p in pts], [p.copy() for p in pts], rot, R.shape)
            cells = []
            k = 0
            bad = None
            for i in range(R.shape[0]):
                for j in range(R.shape[1]):
                    src = int(R[i, j])
                    sr, sc = divmod(src, W)
                    x, y = b_list[k][0]
                    if abs(x - sc) > 1 or abs(y - sr) > 1:
                        bad = [i, j, [float(x), float(y)], [sc, sr]]
                    if not (np.array_equal(b_list[k], t_list[k]) and np.array_equal(b_list[k], p_list[k])):
                        bad = [i, j, 'baseline/outline/region mapped differently']
                    cells.append([sr, sc, int(x), int(y)])
                    k += 1
            if bad:
                ctx.violation('rotation-off:rot=%d' % rot, 'rotate_layout does not map rotated-image coordinates to within one pixel of the original', inp, bad)
            if H != W and rot in (1, 3):
                ctx.nontriv(inp)
            reqs.append(dict(p='C18', op='rot', rot=rot, H=H, W=W))
            impl.append((inp, [int(R.shape[0]), int(R.shape[1])], cells))
    two_engines(ctx, rng, eng)        # first: the engine with the other configuration decodes before any other decode of this process
    ridge_oracle(ctx, rng, eng)
    detect_oracle(ctx, rng, eng)
    order_lines(ctx, rng, reqs, impl)
    if ctx.driver_ok:
        rep = common.Driver(ctx).batch(reqs)
        for r, tup in zip(rep, impl):
            if tup[1] == 'order':
                inp, _, got = tup
                m = r.get('ok')
                if m is None or [m['b'], m['h'], m['t']] != got:
                    ctx.disagree('C18 order_lines_vertical differs from the model', inp, got, m)
                else:
                    ctx.traces_validated += 1
                continue
            inp, shape, cells = tup
            m = r.get('ok')
            if m is None or m['shape'] != shape or m['cells'] != cells:
                ctx.disagree('C18 rotation maps differ (np.rot90 / rotate_layout vs model)', inp, dict(shape=shape, cells=cells[:4]), None if m is None else dict(shape=m['shape'], cells=m['cells'][:4]))
            else:
                ctx.traces_validated += 1
    else:
        ctx.notes.append('driver unavailable: correspondence skipped, oracle only')


def two_engines(ctx, rng, eng):
    """Engines are configured per object: an engine with a wide vertical connection range decoding first must not change what the
    default engine (range 5) makes of two ridges 9..14 map rows apart: two lines."""
    import contextlib, io
    other = make_engine()
    other.vertical_line_connection_range = 15
    for it in range(6 if ctx.quick() else 40):
        Hm, Wm = 90, rng.randrange(80, 160)
        ds = rng.choice([1, 2, 4])
        gap = rng.randrange(9, 15)
        y0 = rng.randrange(20, 40)
        maps = np.zeros((Hm, Wm, 5), dtype=np.float32)
        x0, x1 = rng.randrange(3, 20), rng.randrange(Wm - 25, Wm - 3)
        for y, (up, down) in ((y0, (3.0, 2.0)), (y0 + gap, (4.0, 1.5))):
            maps[y, x0:x1 + 1, 2] = 1.0
            maps[y, x0:x1 + 1, 0] = up
            maps[y, x0:x1 + 1, 1] = down
        inp = dict(map_shape=[Hm, Wm], downsample=ds, ridge_rows=[y0, y0 + gap], first_decoded_by='an engine with vertical_line_connection_range=15')
        ctx.evaluations += 1
        try:
            with contextlib.redirect_stdout(io.StringIO()):
                other.parse(maps.copy(), ds)
                b_list, h_list, _ = eng.parse(maps.copy(), ds)
        except Exception as e:
            ctx.violation('parse-raises:' + type(e).__name__, 'LayoutEngine.parse raised %r' % (e,), inp)
            continue
        if len(b_list) != 2:
            ctx.violation('ridge-count:two-engines', 'two ridges %d map rows apart are not decoded as two lines by the default engine after another engine '
                          '(wider vertical connection range) decoded a page' % gap, inp, len(b_list), 2)
        ctx.count('two_engine_cases')


def ridge_oracle(ctx, rng, eng):
    import contextlib, io
    for it in range(40 if ctx.quick() else 400):
        Hm, Wm = rng.randrange(60, 160), rng.randrange(60, 200)
        parallel = rng.random() < 0.4 or it < 6      # long parallel sloped ridges: vertical separation >= 15 at every column, bounding boxes overlap
        if parallel:
            Hm, Wm = rng.randrange(120, 220), rng.randrange(250, 420)
        common_slope = rng.uniform(-0.08, 0.08)
        if parallel and (it < 6 or rng.random() < 0.6):
            # steep enough that the axis-aligned bounding boxes of neighbouring ridges overlap (rise over the ridge > their separation)
            common_slope = rng.choice([-0.12, -0.1, -0.08, 0.08, 0.1, 0.12])
        ds = rng.choice([1, 2, 4, 8])
        maps = np.zeros((Hm, Wm, 5), dtype=np.float32)
        n = rng.randrange(1, 6)
        ys = []
        want_specks = rng.random() < 0.5
        y = rng.randrange(10, 20) if not want_specks else rng.randrange(22, 32)
        ridges = []
        for k in range(n):
            if y > Hm - 12:
                break
            x0 = rng.randrange(3, Wm // 2)
            x1 = rng.randrange(x0 + 8, Wm - 3)
            slope = rng.choice([0.0, 0.0, rng.uniform(-0.04, 0.04)])
            if parallel:
                x0, x1 = rng.randrange(3, 30), rng.randrange(Wm - 40, Wm - 3)
                slope = common_slope
                if not (12 <= y + min(0, slope * (x1 - x0)) and y + max(0, slope * (x1 - x0)) <= Hm - 12):
                    y += 5
                    if y > Hm - 12:
                        break
                    if not (12 <= y + min(0, slope * (x1 - x0)) and y + max(0, slope * (x1 - x0)) <= Hm - 12):
                        continue
            up, down = rng.uniform(2, 9), rng.uniform(1, 5)
            endpoints = rng.random() < 0.5
            for x in range(x0, x1 + 1):
                yy = int(round(y + slope * (x - x0)))
                maps[yy, x, 2] = 1.0
                maps[yy, x, 0] = up
                maps[yy, x, 1] = down
            if endpoints:
                maps[int(round(y)), x0, 3] = 0.5
                maps[int(round(y + slope * (x1 - x0))), x1, 3] = 0.5
            ridges.append(dict(x0=x0, x1=x1, y0=y, y1=y + slope * (x1 - x0), up=up, down=down, endpoints=endpoints))
            y += (rng.randrange(16, 30) if not parallel else rng.randrange(16, 22)) if not want_specks else rng.randrange(28, 40)
        # noise specks: blobs of 1..4 baseline pixels (too small to be a text line) well away from every ridge, with heights of their own
        specks = []
        if ridges and want_specks:
            occupied = [(min(r['y0'], r['y1']) - 11, max(r['y0'], r['y1']) + 11) for r in ridges]
            for _ in range(rng.randrange(2, 8)):
                sy, sx = rng.randrange(3, Hm - 4), rng.randrange(3, Wm - 4)
                if any(lo <= sy <= hi for lo, hi in occupied) or any(abs(sy - a) < 12 for a, _ in specks):
                    continue
                # shapes / strengths that survive smoothing, vertical non-maximum suppression and the threshold as 3..4 pixels
                shape, val = rng.choice([([(0, 0), (0, 1), (1, 0), (1, 1)], 0.6), ([(0, 0), (1, 0), (2, 0)], 1.0), ([(0, 0), (0, 1), (1, 0), (1, 1)], 0.5),
                                         ([(0, 0), (1, 0), (2, 0)], 0.8), ([(0, 0), (0, 1)], 1.0)])
                for dy, dx in shape:
                    maps[sy + dy, sx + dx, 2] = val
                    maps[sy + dy, sx + dx, 0] = 30.0
                    maps[sy + dy, sx + dx, 1] = 25.0
                specks.append((sy, sx))
            if specks:
                # keep only speck configurations that are no text line by the decoder's own size criterion when they stand alone
                # (a generator filter; the oracle below stays independent: one line per RIDGE, with that ridge's geometry)
                alone = np.zeros_like(maps)
                for sy, sx in specks:
                    alone[sy - 1:sy + 3, sx - 1:sx + 4] = maps[sy - 1:sy + 3, sx - 1:sx + 4]
                with contextlib.redirect_stdout(io.StringIO()):
                    if len(eng.parse(alone.copy(), ds)[0]) > 0:
                        for sy, sx in specks:
                            maps[sy - 1:sy + 3, sx - 1:sx + 4] = 0
                        specks = []
                        ctx.count('speck_configurations_dropped')
        inp = dict(map_shape=[Hm, Wm], downsample=ds, ridges=[{k: (round(v, 2) if isinstance(v, float) else v) for k, v in r.items()} for r in ridges],
                   noise_specks=specks)
        if specks:
            ctx.count('maps_with_noise_specks')
        ctx.evaluations += 1
        try:
            with contextlib.redirect_stdout(io.StringIO()):
                b_list, h_list, t_list = eng.parse(maps.copy(), ds)
        except Exception as e:
            ctx.violation('parse-raises:' + type(e).__name__, 'LayoutEngine.parse raised %r' % (e,), inp)
            continue
        # decoding must not change the maps it is given: a second decode of the SAME array (a detector that keeps its maps, the rot
        # 0/1/2/3 passes over one result) gives the same lines
        if it % 3 == 0:
            shared = maps.copy()
            try:
                with contextlib.redirect_stdout(io.StringIO()):
                    np.random.seed(1); b1, h1, _ = eng.parse(shared, ds)
                    np.random.seed(1); b2, h2, _ = eng.parse(shared, ds)
                same = len(b1) == len(b2) and all(np.array_equal(x, y) for x, y in zip(b1, b2)) and np.allclose(np.asarray(h1, dtype=float), np.asarray(h2, dtype=float))
                if not same:
                    ctx.violation('second-decode-differs', 'decoding the same maps array a second time gives other lines (the first decode changed the maps)', inp,
                                  [len(b1), len(b2)])
            except Exception as e:
                ctx.violation('parse-raises:' + type(e).__name__, 'LayoutEngine.parse raised %r on a second decode' % (e,), inp)
        if len(b_list) != len(ridges):
            ctx.violation('ridge-count', 'not exactly one text line per ridge', inp, len(b_list), len(ridges))
            continue
        # match by vertical position
        got = sorted(zip(b_list, h_list), key=lambda bh: bh[0][:, 1].mean())
        for (b, h), r in zip(got, sorted(ridges, key=lambda r: r['y0'])):
            ok_x = abs(b[0, 0] - ds * r['x0']) <= 4 * ds and abs(b[-1, 0] - ds * r['x1']) <= 4 * ds
            ok_y = abs(b[0, 1] - ds * r['y0']) <= 2 * ds and abs(b[-1, 1] - ds * r['y1']) <= 2 * ds
            ok_h = abs(h[0] - ds * r['up']) <= 0.51 * ds + 1e-6 and abs(h[1] - ds * r['down']) <= 0.51 * ds + 1e-6
            if not (ok_x and ok_y):
                ctx.violation('ridge-position', 'end points / vertical position do not match the map scaled by the down-sampling factor', inp,
                              [b[0].tolist(), b[-1].tolist()], [[ds * r['x0'], ds * r['y0']], [ds * r['x1'], ds * r['y1']]])
            if not ok_h:
                ctx.violation('ridge-heights', 'ascender/descender heights do not match the map scaled by the down-sampling factor', inp,
                              [float(h[0]), float(h[1])], [ds * r['up'], ds * r['down']])
        if len(ridges) >= 2:
            ctx.nontriv(inp)
        ctx.sample(dict(inp, lines=len(b_list)), limit=3)
        ctx.count('ridge_maps')


def order_lines(ctx, rng, reqs, impl):
    """order_lines_vertical with the jitter under control (random.uniform of the module replaced by a preset stream):
    the three results stay aligned (oracle) and the order is the model's sort by jittered key (exact)."""
    from pero_ocr.layout_engines import layout_helpers as helpers
    import random as _random
    if not (hasattr(helpers, 'order_lines_vertical') and hasattr(helpers, 'random')):
        ctx.notes.append('order_lines_vertical / its random source are no longer where the harness observes them: that correspondence is skipped')
        return
    for it in range(60 if ctx.quick() else 800):
        n = rng.randrange(0, 8)
        ys = [rng.choice([10, 10, 20, 30, 30.5, 31, rng.randrange(0, 60)]) for _ in range(n)]
        jit = [rng.choice([0.001, 0.25, 0.5, 0.75, 0.999, round(rng.uniform(0.001, 0.999), 6)]) for _ in range(n)]
        keys = [y + j for y, j in zip(ys, jit)]
        if len(set(keys)) != len(keys):
            continue      # equal jittered keys: Python would compare the NumPy payloads (probability 0 with real jitter)
        bs = [np.array([[rng.randrange(0, 100), y], [rng.randrange(100, 200), y]], dtype=float) for y in ys]
        hs = [[float(i), float(rng.randrange(1, 9))] for i in range(n)]
        ts = [np.array([[i, 0], [i, 1], [i + 1, 1]], dtype=float) for i in range(n)]
        stream = list(jit)

        class R:
            @staticmethod
            def uniform(a, b):
                return stream.pop(0)
        old = helpers.random
        helpers.random = R
        try:
            ob, oh, ot = helpers.order_lines_vertical(list(bs), list(hs), list(ts))
        except Exception as e:
            ctx.violation('order-raises:' + type(e).__name__, 'order_lines_vertical raised %r' % (e,), dict(ys=ys, jitter=jit))
            continue
        finally:
            helpers.random = old
        ctx.evaluations += 1
        ctx.count('order_lines')
        ib = [next(i for i, b in enumerate(bs) if b is x) for x in ob]
        ih = [int(h[0]) for h in oh]
        itx = [int(t[0, 0]) for t in ot]
        inp = dict(ys=ys, jitter=jit)
        if not (ib == ih == itx):
            ctx.violation('order:misaligned', 'baselines, heights and outlines are ordered differently (a line gets another line\'s heights/outline)',
                          inp, [ib, ih, itx])
        if sorted(ib) != list(range(n)):
            ctx.violation('order:not-a-permutation', 'ordering loses or duplicates lines', inp, ib)
        reqs.append(dict(p='C18', op='order', keys=[common.rat(k) for k in keys]))
        impl.append((inp, 'order', [ib, ih, itx]))


class StubNet:
    def __init__(self, maps, ds):
        self.maps, self.ds = maps, ds

    def get_maps_with_optimal_resolution(self, image):
        return self.maps.copy(), self.ds


def detect_oracle(ctx, rng, eng):
    """The real LayoutEngine.detect (parse -> clustering -> vertical ordering -> rotation back) behind a stub network:
    pages with 1-3 text columns whose ridges may start on exactly the same row with different heights; rot 0..3 on
    non-square pages.  Each returned line must carry the heights and outline of ITS ridge, in original-image coordinates."""
    import contextlib, io
    for it in range(25 if ctx.quick() else 300):
        ds = rng.choice([1, 2, 4, 8])
        rot = rng.choice([0, 1, 2, 3])
        ncol = rng.choice([1, 2, 2, 3])
        colw = rng.randrange(50, 90)
        Wm = ncol * (colw + 25) + 10
        Hm = rng.randrange(70, 150)
        if Hm == Wm:
            Hm += 7
        maps = np.zeros((Hm, Wm, 5), dtype=np.float32)
        aligned = rng.random() < 0.6        # columns share their row positions (ties in the vertical order)
        rows = []
        y = rng.randrange(14, 22)
        while y < Hm - 14:
            rows.append(y)
            y += rng.randrange(18, 30)
        ridges = []
        for c in range(ncol):
            x0 = 8 + c * (colw + 25)
            ys = rows if aligned else [r + rng.randrange(0, 4) for r in rows]
            # larger type on the left or on the right
            up = rng.choice([3.0, 5.0, 8.0, 11.0])
            down = rng.choice([1.0, 2.0, 4.0])
            for yy in ys:
                if yy >= Hm - 13 or rng.random() < 0.15:
                    continue
                xa, xb = x0 + rng.randrange(0, 4), x0 + colw - rng.randrange(0, 10)
                maps[yy, xa:xb + 1, 2] = 1.0
                maps[yy, xa:xb + 1, 0] = up
                maps[yy, xa:xb + 1, 1] = down
                ridges.append(dict(x0=xa, x1=xb, y=yy, up=up, down=down))
        if not ridges:
            continue
        # the image handed to detect() is the ORIGINAL page; detect rotates it itself
        # rotated-image size: the real network sizes its maps as round(page / ds), so a page is in general NOT map * ds
        rem = lambda: (rng.randrange(-(ds // 2), (ds + 1) // 2) if ds > 1 and rng.random() < 0.7 else 0)
        Hr, Wr = Hm * ds + rem(), Wm * ds + rem()
        Ho, Wo = (Hr, Wr) if rot % 2 == 0 else (Wr, Hr)
        image = np.zeros((Ho, Wo, 3), dtype=np.uint8)
        idx = np.arange(Ho * Wo).reshape(Ho, Wo)
        R = np.rot90(idx, k=rot)

        def to_orig(x, y):                          # rotated-image pixel -> original-image (x, y)
            src = int(R[int(min(max(round(y), 0), Hr - 1)), int(min(max(round(x), 0), Wr - 1))])
            sr, sc = divmod(src, Wo)
            return sc, sr
        eng.parsenet = StubNet(maps, ds)
        inp = dict(map_shape=[Hm, Wm], downsample=ds, rot=rot, rotated_page_size=[Hr, Wr], aligned_columns=aligned, ridges=ridges)
        ctx.evaluations += 1
        ctx.count('detect:rot=%d' % rot)
        import random as _rnd
        rseed = rng.randrange(2 ** 31)
        try:
            # parse() breaks ties with np.random and order_lines_vertical jitters with random: the same seeds for this call and
            # for the rotated-page call below, so that both make the same random choices
            np.random.seed(rseed)
            _rnd.seed(rseed)
            with contextlib.redirect_stdout(io.StringIO()):
                p_list, b_list, h_list, t_list = eng.detect(image, rot=rot)
        except Exception as e:
            ctx.violation('detect-raises:' + type(e).__name__, 'LayoutEngine.detect raised %r' % (e,), inp)
            continue
        if not (len(b_list) == len(h_list) == len(t_list) == len(ridges)):
            ctx.violation('detect:ridge-count', 'detect: not exactly one text line (baseline, heights, outline) per ridge', inp,
                          [len(b_list), len(h_list), len(t_list)], len(ridges))
            continue
        used = set()
        for b, h, t in zip(b_list, h_list, t_list):
            b = np.asarray(b, dtype=float)
            # the ridge this baseline belongs to: nearest start/end points after mapping to the original image
            best, bd = None, None
            for ri, r in enumerate(ridges):
                e0 = to_orig(ds * r['x0'], ds * r['y'])
                e1 = to_orig(ds * r['x1'], ds * r['y'])
                d = min(max(np.abs(b[0] - e0).max(), np.abs(b[-1] - e1).max()), max(np.abs(b[0] - e1).max(), np.abs(b[-1] - e0).max()))
                if bd is None or d < bd:
                    best, bd = ri, d
            r = ridges[best]
            if bd > 4 * ds + 1 or best in used:
                ctx.violation('detect:position:rot=%d' % rot, 'detect: a returned baseline does not match a ridge in original-image coordinates', inp,
                              [b[0].tolist(), b[-1].tolist()], [to_orig(ds * r['x0'], ds * r['y']), to_orig(ds * r['x1'], ds * r['y'])])
                continue
            used.add(best)
            if abs(h[0] - ds * r['up']) > 0.51 * ds + 1e-6 or abs(h[1] - ds * r['down']) > 0.51 * ds + 1e-6:
                ctx.violation('detect:heights', "detect: the heights returned with a baseline are not its ridge's heights (scaled by the down-sampling factor)",
                              inp, [float(h[0]), float(h[1])], [ds * r['up'], ds * r['down']])
            # the outline belongs to the same ridge: its extent across the baseline is up + down (within 2 px + rounding)
            t = np.asarray(t, dtype=float)
            horizontal = abs(b[-1, 0] - b[0, 0]) >= abs(b[-1, 1] - b[0, 1])
            ext = (t[:, 1].max() - t[:, 1].min()) if horizontal else (t[:, 0].max() - t[:, 0].min())
            if abs(ext - ds * (r['up'] + r['down'])) > 2 * ds + 2:
                ctx.violation('detect:outline', "detect: the outline returned with a baseline is not its ridge's outline", inp,
                              float(ext), ds * (r['up'] + r['down']))
        # rotation clause, sharply: analysing the page in a rotated orientation must give, within one pixel, what analysing the
        # rotated page itself gives, mapped back through the exact inverse of np.rot90 (the decoding tolerances cancel out)
        if rot > 0:
            try:
                np.random.seed(rseed)
                _rnd.seed(rseed)
                with contextlib.redirect_stdout(io.StringIO()):
                    p0, b0, h0, t0 = eng.detect(np.rot90(image, k=rot), rot=0)
            except Exception as e:
                ctx.violation('detect-raises:' + type(e).__name__, 'LayoutEngine.detect raised %r on the rotated page' % (e,), inp)
                p0 = None
            if p0 is not None:
                o = np.array(to_orig(0, 0), dtype=float)
                ex = np.array(to_orig(1, 0), dtype=float) - o
                ey = np.array(to_orig(0, 1), dtype=float) - o

                def back(a):
                    a = np.asarray(a, dtype=float)
                    return o[None, :] + a[:, 0:1] * ex[None, :] + a[:, 1:2] * ey[None, :]
                for name, got_l, ref_l in (('regions', p_list, p0), ('baselines', b_list, b0), ('outlines', t_list, t0)):
                    refs = [back(a) for a in ref_l]
                    worst = 0.0
                    okm = len(got_l) == len(refs)
                    for g in got_l:
                        g = np.asarray(g, dtype=float)
                        ds_ = [float(np.abs(g - r).max()) for r in refs if r.shape == g.shape]
                        if not ds_:
                            okm = False
                            break
                        worst = max(worst, min(ds_))
                    if not okm or worst > 1.0 + 1e-6:
                        ctx.violation('detect:rotation:%s:rot=%d' % (name, rot),
                                      'rotated analysis: %s are not within one pixel of the un-rotated image coordinates' % name, inp, round(worst, 3))
                        break
                ctx.count('detect_rotation_compared')
        if len(ridges) >= 2:
            ctx.nontriv(inp)
        ctx.count('detect_pages')


def replay(data):
    for v in data.get('violations', []):
        print('replay', v['key'], v['what'], str(v['input'])[:500], 'observed', v['observed'], 'expected', v['expected'])
    return 1 if data.get('violations') else 0
