"""A deliberately tiny Python-expression -> Lean translator (DESIGN §2, §7).

Supported: integer constants, names, unary minus, + - * //, len(x), slices x[a:b] (step 1),
list concatenation with +, np.concatenate([a, b, ...], axis=0), min/max of two ints.
Anything else raises Unsupported: the obligation `translator:<name>` is then reported broken.
"""
import ast


class Unsupported(Exception):
    pass


class Tr:
    def __init__(self, names, list_vars):
        self.names = names          # python name -> lean name
        self.list_vars = set(list_vars)

    def is_list(self, n):
        if isinstance(n, ast.Name):
            return n.id in self.list_vars
        if isinstance(n, ast.Subscript) and isinstance(n.slice, ast.Slice):
            return True
        if isinstance(n, ast.BinOp) and isinstance(n.op, ast.Add):
            return self.is_list(n.left) and self.is_list(n.right)
        if isinstance(n, ast.Call) and self._is_concat(n):
            return True
        return False

    @staticmethod
    def _is_concat(n):
        f = n.func
        return isinstance(f, ast.Attribute) and f.attr == 'concatenate'

    def ex(self, n):
        if isinstance(n, ast.Constant) and isinstance(n.value, int) and not isinstance(n.value, bool):
            return '(%d : Int)' % n.value
        if isinstance(n, ast.Name):
            if n.id not in self.names:
                raise Unsupported('free name ' + n.id)
            return self.names[n.id]
        if isinstance(n, ast.UnaryOp) and isinstance(n.op, ast.USub):
            return '(-%s)' % self.ex(n.operand)
        if isinstance(n, ast.BinOp):
            if isinstance(n.op, ast.Add) and self.is_list(n):
                return '(%s ++ %s)' % (self.ex(n.left), self.ex(n.right))
            if self.is_list(n.left) or self.is_list(n.right):
                raise Unsupported('list in arithmetic')
            a, b = self.ex(n.left), self.ex(n.right)
            if isinstance(n.op, ast.FloorDiv):
                return '(Py.floorDiv %s %s)' % (a, b)
            if isinstance(n.op, ast.Add):
                return '(%s + %s)' % (a, b)
            if isinstance(n.op, ast.Sub):
                return '(%s - %s)' % (a, b)
            if isinstance(n.op, ast.Mult):
                return '(%s * %s)' % (a, b)
            raise Unsupported('operator ' + type(n.op).__name__)
        if isinstance(n, ast.Call):
            if isinstance(n.func, ast.Name) and n.func.id == 'len' and len(n.args) == 1:
                return '(Py.len %s)' % self.ex(n.args[0])
            if isinstance(n.func, ast.Name) and n.func.id in ('min', 'max') and len(n.args) == 2 and not n.keywords:
                return '(%s %s %s)' % (n.func.id, self.ex(n.args[0]), self.ex(n.args[1]))
            if self._is_concat(n):
                if len(n.args) != 1 or not isinstance(n.args[0], (ast.List, ast.Tuple)):
                    raise Unsupported('concatenate shape')
                for k in n.keywords:
                    if not (k.arg == 'axis' and isinstance(k.value, ast.Constant) and k.value.value == 0):
                        raise Unsupported('concatenate keyword')
                parts = [self.ex(e) for e in n.args[0].elts]
                return '(' + ' ++ '.join(parts) + ')'
            raise Unsupported('call')
        if isinstance(n, ast.Subscript) and isinstance(n.slice, ast.Slice):
            sl = n.slice
            if sl.step is not None:
                raise Unsupported('slice step')
            lo = 'none' if sl.lower is None else '(some %s)' % self.ex(sl.lower)
            hi = 'none' if sl.upper is None else '(some %s)' % self.ex(sl.upper)
            return '(Py.slice %s %s %s)' % (self.ex(n.value), lo, hi)
        raise Unsupported(type(n).__name__)


def find_function(tree, name):
    for n in ast.walk(tree):
        if isinstance(n, (ast.FunctionDef,)) and n.name == name:
            return n
    raise Unsupported('function %s not found' % name)
