"""C16: regenerate lean/PeroVerif/Generated/Confidence.lean from get_line_confidence
(the window border between neighbouring characters and the end sentinel of the alignment)."""
import ast
import copy
import os

from .pyexpr import Tr, Unsupported, find_function

SRC = 'pero_ocr/core/confidence_estimation.py'


def _subst(node, table):
    """Replace sub-expressions (matched by their unparsed text) by names."""
    class S(ast.NodeTransformer):
        def generic_visit(self, n):
            if isinstance(n, ast.expr):
                txt = ast.unparse(n)
                if txt in table:
                    return ast.Name(id=table[txt], ctx=ast.Load())
            return super().generic_visit(n)
    return S().visit(copy.deepcopy(node))


def generate(repo):
    """Name-agnostic reading of get_line_confidence: the extended alignment A is the variable assigned from
    np.concatenate([<aligned letters>, [<sentinel>]]); the loop over the labels has an index variable i (from enumerate or
    range(len(labels))); the window's lower border LB starts at the constant 0 before the loop and is set to the upper border NB
    by a plain copy `LB = NB` inside the loop; NB's defining expression (helper assignments such as `frame = A[i]` inlined) is
    translated with A[i] -> a, A[i + 1] -> a2.  Renaming or introducing helper variables does not disturb the translation."""
    src = open(os.path.join(repo, SRC)).read()
    tree = ast.parse(src)
    fn = find_function(tree, 'get_line_confidence')
    loops = [n for n in fn.body if isinstance(n, ast.For)]
    if len(loops) != 1:
        raise Unsupported('expected one for-loop over the labels in get_line_confidence')
    loop = loops[0]
    before0 = fn.body[:fn.body.index(loop)]
    pre0 = {st.targets[0].id: st.value for st in before0
            if isinstance(st, ast.Assign) and len(st.targets) == 1 and isinstance(st.targets[0], ast.Name)}
    it = ast.unparse(loop.iter)
    rng_arg = None
    if isinstance(loop.iter, ast.Call) and isinstance(loop.iter.func, ast.Name) and loop.iter.func.id == 'range' and len(loop.iter.args) == 1:
        a0 = loop.iter.args[0]
        rng_arg = ast.unparse(pre0[a0.id]) if isinstance(a0, ast.Name) and a0.id in pre0 else ast.unparse(a0)
    if it == 'enumerate(labels)' and isinstance(loop.target, ast.Tuple) and isinstance(loop.target.elts[0], ast.Name):
        idx = loop.target.elts[0].id
    elif rng_arg == 'len(labels)' and isinstance(loop.target, ast.Name):
        idx = loop.target.id
    else:
        raise Unsupported('loop header is neither `for i, label in enumerate(labels)` nor `for i in range(len(labels))`')
    before = fn.body[:fn.body.index(loop)]
    A = sent = None
    zero_vars = set()
    for st in before:
        if isinstance(st, ast.Assign) and len(st.targets) == 1 and isinstance(st.targets[0], ast.Name):
            v = st.value
            if isinstance(v, ast.Call) and ast.unparse(v.func) == 'np.concatenate' and len(v.args) == 1 and isinstance(v.args[0], ast.List) \
                    and len(v.args[0].elts) == 2 and isinstance(v.args[0].elts[1], ast.List) and len(v.args[0].elts[1].elts) == 1:
                A, sent = st.targets[0].id, v.args[0].elts[1].elts[0]
            if isinstance(v, ast.Constant) and v.value == 0 and not isinstance(v.value, bool):
                zero_vars.add(st.targets[0].id)
    if A is None:
        raise Unsupported('alignment is not np.concatenate([<aligned letters>, [<sentinel>]])')
    pre_assigns = {st.targets[0].id: st.value for st in before
                   if isinstance(st, ast.Assign) and len(st.targets) == 1 and isinstance(st.targets[0], ast.Name)}
    assigns, order = {}, []
    copies = []
    for st in loop.body:
        if isinstance(st, ast.Assign) and len(st.targets) == 1 and isinstance(st.targets[0], ast.Name):
            name = st.targets[0].id
            if isinstance(st.value, ast.Name) and name in zero_vars:
                copies.append((name, st.value.id))
                continue
            if name in assigns:
                raise Unsupported('a loop variable is assigned twice: ' + name)
            assigns[name] = st.value
            order.append(name)
    if len(copies) != 1:
        raise Unsupported('expected exactly one `<lower border> = <upper border>` copy in the loop')
    NB = copies[0][1]
    if NB not in assigns:
        raise Unsupported('upper border %s is not computed in the loop' % NB)

    def inline(node, upto, depth=0):
        class Sub(ast.NodeTransformer):
            def visit_Name(self, n):
                if n.id in assigns and n.id != NB and order.index(n.id) < upto and depth < 6:
                    return inline(assigns[n.id], order.index(n.id), depth + 1)
                return n
        return Sub().visit(copy.deepcopy(node))
    e_border = inline(assigns[NB], order.index(NB))
    e_border = _subst(e_border, {'%s[%s]' % (A, idx): 'a', '%s[%s + 1]' % (A, idx): 'a2'})
    free = {n.id for n in ast.walk(e_border) if isinstance(n, ast.Name)} - {'a', 'a2'}
    if free:
        raise Unsupported('border expression depends on %s' % sorted(free))
    # sentinel: inline names bound before the loop (e.g. a named constant), `<x>.shape[0]` -> T
    def inlinable(v):
        return not isinstance(v, ast.Call) or (isinstance(v.func, ast.Name) and v.func.id in ('max', 'min'))

    def inline_pre(node, depth=0):
        class Sub(ast.NodeTransformer):
            def visit_Name(self, n):
                if n.id in pre_assigns and n.id != A and depth < 4 and inlinable(pre_assigns[n.id]):
                    return inline_pre(pre_assigns[n.id], depth + 1)
                return n
        return Sub().visit(copy.deepcopy(node))
    e_sent = inline_pre(sent)

    class Shape(ast.NodeTransformer):
        def visit_Subscript(self, n):
            if isinstance(n.value, ast.Attribute) and n.value.attr == 'shape' and isinstance(n.value.value, ast.Name) \
                    and isinstance(n.slice, ast.Constant) and n.slice.value == 0:
                return ast.Name(id='T', ctx=ast.Load())
            return self.generic_visit(n)
    e_sent = Shape().visit(e_sent)
    nb = [type('X', (), {'value': assigns[NB]})()]
    v = [st.value for st in before if isinstance(st, ast.Assign) and len(st.targets) == 1 and getattr(st.targets[0], 'id', None) == A][0]
    tr = Tr({'a': 'a', 'a2': 'a2', 'T': 'T'}, [])
    border = tr.ex(e_border)
    sent = tr.ex(e_sent)
    return '''/-
GENERATED by translator/confidence.py from %s (get_line_confidence) — do not edit.
Python source:
  next_border = %s
  alignment   = %s
-/
import PeroVerif.Py.Basic
namespace Gen.Confidence

/-- border between the windows of character i (aligned to frame `a`) and character i+1 (frame `a2`) -/
def nextBorder (a a2 : Int) : Int :=
  %s

/-- end sentinel appended to the alignment (`T` = number of frames) -/
def sentinel (T : Int) : Int :=
  %s

end Gen.Confidence
''' % (SRC, ast.unparse(nb[0].value), ast.unparse(v), border, sent)


def write(repo, lean_root):
    out = generate(repo)
    p = os.path.join(lean_root, 'PeroVerif', 'Generated', 'Confidence.lean')
    if not os.path.exists(p) or open(p).read() != out:
        with open(p, 'w') as f:
            f.write(out)
    return p
