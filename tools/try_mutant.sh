#!/bin/bash
# usage: tools/try_mutant.sh <property> <worktree> <name>
# 1. confirm: demo fails with the change, passes without; test suite unchanged with the change
# 2. store under seeded/<name>/ ; 3. apply to /repo, run the property's check (quick, then thorough if missed), undo
prop=$1; wt=$2; name=$3
cd /verif
mkdir -p seeded/$name
cp $wt/MUTANT/patch.diff $wt/MUTANT/demo.py $wt/MUTANT/meta.json seeded/$name/ 2>/dev/null
# confirmation in a fresh scratch worktree
scratch=/tmp/mutcheck_$name
git -C /repo worktree add -q --detach $scratch HEAD
mkdir -p $scratch/MUTANT && cp seeded/$name/demo.py $scratch/MUTANT/
( cd $scratch && /venv/bin/python MUTANT/demo.py > /tmp/demo_orig.log 2>&1; echo "demo on original: exit $?" )
( cd $scratch && git apply /verif/seeded/$name/patch.diff && /venv/bin/python MUTANT/demo.py > /tmp/demo_mut.log 2>&1; echo "demo on mutant: exit $?"; /venv/bin/python -m pytest -q -p no:cacheprovider test 2>&1 | tail -1 )
git -C /repo worktree remove --force $scratch
# run the check against /repo with the patch applied
git -C /repo apply /verif/seeded/$name/patch.diff || { echo "PATCH DOES NOT APPLY"; exit 1; }
out=$(timeout 900 ./check $prop quick 2>&1 | grep -E "^(OK|VIOLATION|KNOWN|  failing|  broken|  disagreement|INFRA)" | cut -c1-260 | head -6)
echo "--- quick:"; echo "$out"
if echo "$out" | grep -q "^OK"; then
  out2=$(timeout 1500 ./check $prop thorough 2>&1 | grep -E "^(OK|VIOLATION|KNOWN|  failing|  broken|  disagreement|INFRA)" | cut -c1-260 | head -6)
  echo "--- thorough:"; echo "$out2"
fi
git -C /repo checkout -- .
git -C /repo status --short | head -3
