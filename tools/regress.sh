#!/bin/bash
# usage: tools/regress.sh   — every seeded mutant must be reported (VIOLATION) and every benign refactoring must pass (OK), quick tier
cd /verif
git -C /repo status --short | grep -q . && { echo "/repo is dirty"; exit 2; }
bad=0
for d in seeded/*/; do
  n=$(basename $d); c=${n%%-*}
  git -C /repo apply /verif/$d/patch.diff || { echo "$n: PATCH DOES NOT APPLY"; bad=1; continue; }
  r=$(timeout 900 ./check $c quick 2>&1 | grep -E "^(OK|VIOLATION|INFRA)" | head -1 | cut -c1-100)
  git -C /repo checkout -- .
  case "$r" in VIOLATION*) echo "$n: detected ($r)";; *) echo "$n: MISSED ($r)"; bad=1;; esac
done
for d in benign/*/; do
  n=$(basename $d); c=${n%%-*}
  git -C /repo apply /verif/$d/patch.diff || { echo "$n: PATCH DOES NOT APPLY"; bad=1; continue; }
  r=$(timeout 900 ./check $c quick 2>&1 | grep -E "^(OK|VIOLATION|INFRA)" | head -1 | cut -c1-100)
  git -C /repo checkout -- .
  case "$r" in OK*) echo "$n: passes";; *) echo "$n: FALSE ALARM ($r)"; bad=1;; esac
done
# leave generated files as on the clean tree
for c in C01 C06 C08 C10 C11 C14 C15 C16 C17; do ./check $c quick >/dev/null 2>&1; done
echo "regress: bad=$bad"
