#!/bin/bash
# usage: tools/confirm_mutant.sh <worktree> <name>  — store MUTANT/* under seeded/<name>/ and confirm in a fresh scratch worktree of /repo's HEAD:
# demo.py exits 0 on the original and non-zero with the patch; the test suite is unchanged with the patch.  /repo itself is not touched.
wt=$1; name=$2
cd /verif
mkdir -p seeded/$name
cp $wt/MUTANT/patch.diff $wt/MUTANT/demo.py $wt/MUTANT/meta.json seeded/$name/ 2>/dev/null
scratch=/tmp/mutcheck_$name
rm -rf $scratch; git -C /repo worktree add -q --detach $scratch HEAD
mkdir -p $scratch/MUTANT && cp seeded/$name/demo.py $scratch/MUTANT/
( cd $scratch && /venv/bin/python MUTANT/demo.py > /tmp/demo_orig_$name.log 2>&1; echo "$name demo on original: exit $?" )
( cd $scratch && git apply /verif/seeded/$name/patch.diff && /venv/bin/python MUTANT/demo.py > /tmp/demo_mut_$name.log 2>&1; echo "$name demo on mutant: exit $?"; /venv/bin/python -m pytest -q -p no:cacheprovider test 2>&1 | tail -1 )
git -C /repo worktree remove --force $scratch
