#!/bin/bash
# usage: tools/one_mutant.sh <name> [tier]   — apply seeded/<name>/patch.diff to /repo, run the property's check, undo
n=$1; tier=${2:-quick}; c=${n%%-*}
cd /verif
git -C /repo status --short | grep -q . && { echo "/repo is dirty"; exit 2; }
git -C /repo apply /verif/seeded/$n/patch.diff || { echo "PATCH DOES NOT APPLY"; exit 1; }
timeout 1500 ./check $c $tier 2>&1 | grep -E "^(OK|VIOLATION|KNOWN|  failing|  broken|  disagreement|INFRA|Traceback|  File|[A-Za-z]*Error)" | cut -c1-300 | head -12
git -C /repo checkout -- .
