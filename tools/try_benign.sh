#!/bin/bash
# usage: tools/try_benign.sh <property> <worktree> <name>
# a behaviour-preserving refactoring: confirm (equiv.py exits 0, test suite unchanged), store under benign/<name>/,
# apply to /repo, run the property's quick AND thorough check (both must say OK), undo
prop=$1; wt=$2; name=$3
cd /verif
mkdir -p benign/$name
cp $wt/BENIGN/patch.diff $wt/BENIGN/equiv.py $wt/BENIGN/meta.json benign/$name/ 2>/dev/null
scratch=/tmp/bencheck_$name
git -C /repo worktree add -q --detach $scratch HEAD
mkdir -p $scratch/BENIGN && cp benign/$name/equiv.py $scratch/BENIGN/
( cd $scratch && git apply /verif/benign/$name/patch.diff && /venv/bin/python BENIGN/equiv.py > /tmp/equiv.log 2>&1; echo "equiv on refactored: exit $?"; /venv/bin/python -m pytest -q -p no:cacheprovider test 2>&1 | tail -1 )
git -C /repo worktree remove --force $scratch
git -C /repo apply /verif/benign/$name/patch.diff || { echo "PATCH DOES NOT APPLY"; exit 1; }
for tier in quick thorough; do
  out=$(timeout 1500 ./check $prop $tier 2>&1 | grep -E "^(OK|VIOLATION|KNOWN|  failing|  broken|  disagreement|INFRA)" | cut -c1-260 | head -6)
  echo "--- $tier:"; echo "$out"
done
git -C /repo checkout -- .
git -C /repo status --short | head -3
