"""Per-property registration data; tools/gen_manifest.py turns it into MANIFEST.json."""

PARTIAL = 'PARTIAL: '

REG_PENDING = {}
REG13 = {
 'C13': dict(
    text='Lean 4 theorems over a model of sequence_alignment.py: the rolling-row DP equals the minimum cost over ALL '
         'explicit alignments (every pair of sequences, every cost triple, no size bound); returned alignments project to '
         'both inputs and have that cost; stats sum to the distance; aggregation is addition. Model tied to the code by an '
         'exact correspondence check (exhaustive small scope + random) and an independent oracle on the real code.',
    note='Trusted: Lean kernel + propext/Classical.choice/Quot.sound; NumPy exact integer arithmetic; the correspondence '
         'harness and compiled driver. Substring variants: see DESIGN §5-C13 for what is proved vs. checked by oracle.',
    technique='Lean 4 proof (DP invariant = min over alignments) + differential correspondence model<->code',
    ref='§5-C13'),
}

REG = {
 'C04': dict(
    text='Lean 4 theorems: the engine\'s batched index pipeline (prepend blank frame, +1, repeat mask, zeroing, -1, filter), the '
         'stand-alone groupby decoder and greedy_filtration all equal the CTC collapse of the first-arg-max path, for every '
         'number of classes, frames and lines; batched decoding is line-wise. Tied to the real torch/numpy code by exact '
         'correspondence (exhaustive arg-max patterns + random integer tensors with ties).',
    note='Trusted: Lean kernel + 3 standard axioms; torch.argmax/np.argmax return the first maximum (exercised); the batched '
         'torch ops act independently per line (modelled as List.map; exercised with batches of different content).',
    technique='Lean 4 proof (pipeline = collapse, induction over frames) + differential correspondence',
    ref='§5-C04'),
 'C05': dict(
    text='Lean 4 theorems over a model of force_alignment.py (2n+1-state CTC topology, Viterbi with the code\'s scan order and '
         'strict updates, first-minimum argmin, backtracking): the returned path has one symbol per frame, collapses exactly to '
         'the labels and is minimum-cost among ALL frame paths that do; failure iff no finite-cost alignment exists, and for '
         'finite matrices iff T < |labels| + #adjacent repeats; character positions strictly increasing and most confident '
         'within their block. Exact correspondence (integer/inf costs, ties) + brute-force oracle on the real code.',
    note='Trusted: Lean kernel + 3 standard axioms; NumPy float arithmetic on small integers/inf is exact; numba-compiled '
         'compute_update behaves as its Python body; +inf alignments count as non-existent.',
    technique='Lean 4 proof (Viterbi DP invariant + CTC topology bijection) + differential correspondence',
    ref='§5-C05'),
 'C15': dict(
    text='Lean 4 theorems over a model of merge_transcriptions_and_logits whose two slice expressions are REGENERATED from the '
         'Python source on every run (translator/merge.py -> Generated/Merge.lean): length law, one logits row per character, '
         'prefix/suffix preservation, zero-overlap and empty parts concatenated unchanged, for any number of parts of any '
         'length; window splitting covers the line with max_line_width//4 overlap. Loop structure and overlap search tied '
         'by exact correspondence with the real functions.',
    note='Trusted: Lean kernel + 3 standard axioms; the ast translator (tiny expression subset; validated by the exact '
         'correspondence of the generated model with the real merge on every run); float comparison of cer quotients of small '
         'integers orders like exact rationals.',
    technique='Lean 4 proof over a model regenerated from source + differential correspondence',
    ref='§5-C15'),
}
REG.update(REG13)
NOT_YET = {}
