"""Per-property registration data; tools/gen_manifest.py turns it into MANIFEST.json."""

PARTIAL = 'PARTIAL: '

REG_PENDING = {}
REG13 = {
 'C13': dict(
    text='Lean 4 theorems over a model of sequence_alignment.py: the rolling-row DP equals the minimum cost over ALL '
         'explicit alignments (every pair of sequences, every cost triple, no size bound); returned alignments project to '
         'both inputs and have that cost; corollaries: distance 0 to itself for every cost table, unit distance 0 iff the sequences are equal, length difference <= unit distance <= length of the longer sequence, triangle inequality (composition of alignments; with symmetry and zero-iff-equal the unit distance is a metric); stats sum to the distance; the line-end classification of a summary (get_match_type, get_non_matching_suffix, BoundaryErrorsSummary) is modelled and always produced with exactly one flag - its two AssertionErrors are unreachable because an optimal alignment never ends in errors holding an insertion and a deletion together (ending_total); aggregation is addition (numeric fields and the confusion table as a bag of alignment pairs); the substring alignment '
         '(levenshtein_alignment_substring: free prefix/suffix, suffix_beginning scan, back-trace) returns pre ++ core ++ suf with free '
         'ends and core cost = the minimum over all substrings, for every cost triple. Model tied to the code by an '
         'exact correspondence check (exhaustive small scope + random) and an independent oracle on the real code.',
    note='Trusted: Lean kernel + propext/Classical.choice/Quot.sound; NumPy exact integer arithmetic; the correspondence '
         'harness and compiled driver. Substring distance and substring alignment are both proved (C13.substring_optimal, C13.substring_alignment_correct).',
    technique='Lean 4 proof (DP invariant = min over alignments) + differential correspondence model<->code',
    ref='§5-C13'),
}

REG = {
 'C02': dict(
    text='Lean 4 theorems, for every ordered commutative semiring (hence exact log-domain arithmetic via exp), every matrix, '
         'beam width, symbol selector and EVERY admissible beam cut (any top-k set: covers np.argpartition): distinct transcripts; '
         'Pb <= massB, Pnb <= massNB, score <= true CTC path sum (never over-counts); exact and complete when nothing is pruned; '
         'joining = grouping of textbook prefix-beam contributions and each frame keeps a top-k of the positive candidates; the '
         'beam never dies; unnormalised input rejected. Model tied to the real decoder by correspondence in exact rationals '
         '(sets equal, scores within 1e-7, near-ties skipped; PER-FRAME: the beam the real decoder holds at the start of every frame - '
         'prefixes with Pb and Pnb separately, observed by wrapping compute_Pb / find_new_prefixes without touching the source - '
         'equals the model\'s beam after the previous frame) + brute-force path-sum oracle + textbook reference that enumerates every legal '
         'way of breaking (near-)ties at the cut (result must be one of them; never more than k hypotheses); decoder objects are reused.',
    note='Trusted: Lean kernel + 3 standard axioms; floating-point logaddexp/exp/log vs exact arithmetic (1e-7); np.argpartition '
         'returns some top-k set; translator reads the -10 threshold and 1e-5 tolerance.',
    technique='Lean 4 proof (CTC path-sum recursion + beam invariants over ordered semirings) + differential correspondence',
    ref='§5-C02'),
 'C03': dict(
    text='Lean 4 theorems: the LM score and LM state of every beam entry are functions of its prefix alone (the LM\'s own score '
         'along the transcript incl. insertion bonus, times the end-of-line score when requested), for every history-dependent '
         'LM and every selecting cut; first-arg-max laws; the best hypothesis is independent of hypothesis order when unique; '
         'posteriors are probabilities summing to 1 and the arg-max of the posteriors is the arg-max of the totals (confidence = '
         'posterior of the best hypothesis); LM scale 0 reproduces LM-free decoding exactly. Correspondence with the real decoder '
         'driven by history-hash toy LMs (half of the decoder objects have already decoded other lines from other start states), '
         'final hypotheses and PER-FRAME beams (prefix -> Pb, Pnb, LM score); '
         'oracle recomputes LM scores along transcripts; a second oracle drives the decoder with the REAL LMWrapper/HiddenState around '
         'tiny seeded torch LMs (plain and tuple state), reference = the raw torch modules along every transcript from a pristine copy of '
         'the start state; decoder object AND start-state object reused over several lines (the start state must not be modified).',
    note='Trusted: as C02; rank decisions with margin < 1e-6 skipped; real torch LM (LMWrapper) not modelled: any object with the '
         'advance/log_probs/eos interface is covered by the theorems.',
    technique='Lean 4 proof (invariant: plm/h depend on the prefix only; arg-max/posterior laws) + differential correspondence',
    ref='§5-C03'),
 'C04': dict(
    text='Lean 4 theorems: the engine\'s batched index pipeline (prepend blank frame, +1, repeat mask, zeroing, -1, filter), the '
         'stand-alone groupby decoder and greedy_filtration all equal the CTC collapse of the first-arg-max path, for every '
         'number of classes, frames and lines; batched decoding is line-wise; the result never contains the blank, holds only arg-max classes of the line, is no longer than the line has frames, and is empty for an all-blank line. Tied to the real torch/numpy code by exact '
         'correspondence (exhaustive arg-max patterns + random integer tensors with ties); the whole engine (process_lines -> run_ocr -> '
         'greedy_decode_ctc) behind stub networks that answer padding with blank, one character or two characters in turn: returned text = '
         'collapse(arg-max of the RETURNED logits) = stand-alone decoder on them, for every line of every batch.',
    note='Trusted: Lean kernel + 3 standard axioms; torch.argmax/np.argmax return the first maximum (exercised); the batched '
         'torch ops act independently per line (modelled as List.map; exercised with batches of different content).',
    technique='Lean 4 proof (pipeline = collapse, induction over frames) + differential correspondence',
    ref='§5-C04'),
 'C05': dict(
    text='Lean 4 theorems over a model of force_alignment.py (2n+1-state CTC topology, Viterbi with the code\'s scan order and '
         'strict updates, first-minimum argmin, backtracking): the returned path has one symbol per frame, collapses exactly to '
         'the labels and is minimum-cost among ALL frame paths that do; failure iff no finite-cost alignment exists, and for '
         'finite matrices iff T < |labels| + #adjacent repeats; character positions strictly increasing and most confident '
         'within their block. Exact correspondence (integer/inf costs, ties) + brute-force oracle on the real code.',
    note='Trusted: Lean kernel + 3 standard axioms; NumPy float arithmetic on small integers/inf is exact; numba-compiled '
         'compute_update behaves as its Python body; +inf alignments count as non-existent.',
    technique='Lean 4 proof (Viterbi DP invariant + CTC topology bijection) + differential correspondence',
    ref='§5-C05'),
 'C14': dict(
    text='Lean 4 theorems over a model of confusion_networks.py (pivot, Levenshtein path walk with two pointers, bump/insert, '
         'normalise, path enumeration): adding a hypothesis never fails, keeps every readable string (non-empty network), makes '
         'the new hypothesis readable in order, adds exactly the score to every position; along every history whose first '
         'hypothesis is non-empty all hypotheses stay readable; normalised positions sum to 1; paths are all arc combinations '
         'each once, non-increasing, summing to 1; single hypothesis reads back. The pointer-advance flag is REGENERATED from the '
         'source each run. Every case is also built from a BagOfHypotheses through produce_cn_from_boh (with/without LM scores, LM '
         'weights): positions and paths sum to 1 and the network equals the one-by-one construction. Known finding (recorded): a '
         'leading empty hypothesis leaves no trace.',
    note='Trusted: Lean kernel + 3 standard axioms; the small ast translator for the append branch; float sums of dyadic '
         'scores exact, normalisation within 1e-9; the odometer enumeration is modelled as the lexicographic product (checked by '
         'exact correspondence of the enumeration order).',
    technique='Lean 4 proof (walk relation invariants; sum-of-products) over a model with a generated flag + differential correspondence',
    ref='§5-C14'),
 'C15': dict(
    text='Lean 4 theorems over a model of merge_transcriptions_and_logits whose two slice expressions are REGENERATED from the '
         'Python source on every run (translator/merge.py -> Generated/Merge.lean): length law, one logits row per character, '
         'prefix/suffix preservation, zero-overlap and empty parts concatenated unchanged, for any number of parts of any '
         'length; the overlap search is SPECIFIED (findBestOverlap_spec: first overlap length of minimum character error rate below 1, 0 iff none is below 1; exact_overlap_found: a literal overlap is always detected and the shortest literal one is returned); window splitting covers the line with max_line_width//4 overlap. Loop structure and overlap search tied '
         'by exact correspondence with the real functions. The regrouping of the window results per line in process_lines is modelled (regroup_flatten, regroup_lengths, line_result: line k gets exactly '
         'its own windows, in order) with exact correspondence per network call; the merged text is independent of the logits (text_independent_of_logits), '
         'compared on the real process_lines(no_logits=True).',
    note='Trusted: Lean kernel + 3 standard axioms; the ast translator (tiny expression subset; validated by the exact '
         'correspondence of the generated model with the real merge on every run); float comparison of cer quotients of small '
         'integers orders like exact rationals.',
    technique='Lean 4 proof over a model regenerated from source + differential correspondence',
    ref='§5-C15'),
}
REG['C01'] = dict(
    text='Lean 4 theorems over a model of PAGE XML export/import on a neutral element tree with own decimal printers/parsers: '
         'import(export v p) = canon p for every well-formed quantised page and both versions (ids, types, polygons, region text, '
         'line ids, indices, baselines, polygons, heights, transcriptions incl. empty/absent, confidences), canon idempotent, '
         'export/import fixpoint; the reading-order sort is a permutation, sorted with unlisted regions last, and stable; the '
         'sort key (by region id) is REGENERATED from the source each run. Correspondence: the real export parsed by lxml into the '
         'neutral tree equals the model export of the independently (decimal) quantised page; the real loader equals the model '
         'import; oracle compares reload and second/third export on the real code.',
    note='Trusted (not verified): lxml serialisation/escaping/parsing and Unicode handling; CPython float formatting (:.1f/:.3f) '
         'and np.round; guess_line_heights_from_polygon (lines without stored heights are covered by the fixpoint oracle only).',
    technique='Lean 4 proof (printer/parser round trips, tree round trip, stable sort laws) + differential correspondence via lxml',
    ref='§5-C01')
REG['C06'] = dict(
    text='Lean 4 theorems: the Arabic order conversion (literal state machine of ArabicHelper._reverse) only permutes characters and '
         'is an involution, for EVERY classification of characters and every string; in both export branches (alignable or not) the '
         'String contents are exactly the whitespace-separated words of the transcription through the conversion and the export of a '
         'line never raises (as many word spans as words; the separator test is REGENERATED from the source); str.split() neither '
         'loses nor invents characters; a line is exported iff non-blank; get_hwvh is the bounding box; the print space is the '
         'bounding box of the blocks and the four margins cover the rest of the page; word confidences are medians of values in [0,1] '
         '(C16); composition theorem alto_confidence_total: whenever the forced alignment of a line succeeds (C05) on a matrix of '
         'per-frame distributions, the per-character confidences are defined on the aligned positions, one per character, each in '
         '[0,1] (CTC and transformer dispatch); RE-IMPORT: from_altoxml joins the String contents by single blanks and splitting that again returns '
         'exactly the exported words, for every transcription (reimport_words, reimport_roundtrip). Correspondence: order conversion exhaustive over a 9-symbol class alphabet + random strings (exact); words/SP count '
         'and print-space/margin integers of the real to_altoxml_string vs the model; the re-imported transcription of every line vs the model; oracle on the '
         'real export and re-import, incl. a second export after the transcriptions were edited (the posteriors stay).',
    note='Trusted / not decided: lxml; String/word GEOMETRY beyond "integer-valued" (get_crop_inputs, cf. C10); which lines align '
         '(C05) is an input of the word model. Observation: word confidences of lines with repeated blanks are taken from a shifted '
         'slice (still in [0,1]).',
    technique='Lean 4 proof (simulation to a simpler machine + involution by strong induction; run counting; fold invariants) + differential correspondence',
    ref='§5-C06')
REG['C10'] = dict(
    text=PARTIAL + 'Lean 4 theorems for the discrete/algebraic skeleton of cropping: rows are a linear ramp from -h0*s to +h1*s '
         '(np.linspace model), the width is floor(arc*H/((h0+h1)*s)), exact bilinear sampling through the sub-image equals sampling '
         'the page whenever the sample lies in the floor/ceil box (fast path = general path) and is a convex combination, every '
         'evaluation point of the cubic interpolant is admissible (flag REGENERATED from the source; kernel-checked witness that it '
         'was not before the fix), crop always returns the configured height and is blank iff the inner computation raised; '
         'reverse_line_mapping (literal loop incl. Python negative indexing) as get_crop_inputs uses it is the chord between the '
         'first and the last sample at fraction t/L (columns advance uniformly in the baseline frame); for a STRAIGHT baseline the '
         'whole sampling grid is the rotation back of (left + (n-1)c/(W-1), y0 - h0 + (h0+h1)r/(H-1)), the rotation preserves '
         'distances and right angles (uniform advance, linear rows, perpendicularity proved for straight lines; exact correspondence '
         'of the real get_crop_inputs grid within 0.02 px). NOT '
         'decided by proof: the same clauses for CURVED baselines (fitted curve, normals), shift equivariance in floating point '
         '(polyfit, splines, atan2, arc length, cv2 fixed-point) - judged only by a geometric oracle on the real output. Degenerate lines '
         '(vertical, point, one pixel, zero heights given as Python numbers, float/int ndarrays or NumPy scalars; directly and through the '
         'real LineCropper stage) must give an image of the configured height and never an error. The degree np.polyfit is called with for INTERP > 0 is REGENERATED from the live call for INTERP 1..4 x 3..5 points '
         '(cfg_fit_degree: it is fitDegree = min(INTERP, points - 1)) and is always determined by the points (fit_determined) - the obligation breaks '
         'when the cap of the fix decbd4e is removed.',
    note='Trusted: cv2.remap is bilinear sampling with constant border (model vs cv2 within one grey level at 1/32-px coordinates); '
         'SciPy interp1d, NumPy polyfit/linspace; float rounding.',
    technique='Lean 4 proof (floor/convexity arguments over Q) over a model with a generated flag + geometric oracle (partial)',
    ref='§5-C10')
REG['C11'] = dict(
    text=PARTIAL + 'Lean 4 theorems with shapely as a parameter (mask): the id scheme region-l%03d is injective and all ids of one '
         'assignment are distinct; ids stay distinct across the orientation passes over given regions (flag REGENERATED from the '
         'source); the bounding-box pre-filter never discards a line whose box lies in the region\'s box (unless a single point) and '
         'rejects boxes separated in both axes; what a region stores is exactly mask\'s answer for the candidates, in line order, '
         'with the line\'s heights; a line mask rejects is never placed; the longest piece is the first maximum. NOT decided by '
         'proof: everything shapely computes (clipped baseline a piece of the detected one and inside the region, outline clipped, '
         'inside-lines unchanged, untouched never placed) for GENERAL polygons - judged by an independent float-geometry oracle on the real output, over '
         'rectangles, concave U/C shapes, convex polygons and SELF-TOUCHING rings (pinched in a vertex, frame with a slit). Two defects '
         'found this way are fixed (clipping to the convex hull of a self-touching region; longest piece fragmented along a boundary). '
         'For RECTANGULAR regions the clipping itself is a theorem: Clip.clipPolyline (Liang-Barsky on exact rationals) is sound and '
         'complete per segment (a parameter is kept iff its point lies in the rectangle), every placed vertex lies in the region and on '
         'the detected baseline, a baseline wholly inside is returned unchanged as one piece, one that does not touch yields nothing; '
         'exact correspondence of shapely\'s intersection and of the real mask_textline_by_region (longest piece) with that model. '
         'The MERGE LOOP of LayoutExtractor.process_page (merge_lines + re-assignment until the number of lines stops changing) is modelled '
         '(Model/MergeLoop): the grouping pass of merge_lines partitions the removed lines into the new ones (merge_groups_partition), never '
         'returns more lines than it got (merge_count_le), keeps isolated lines, re-assignment to one region places each line at most once '
         '(assign_count_le), hence the loop TERMINATES within n + 1 passes for every such step (merge_loop_terminates, fuel never exhausted) '
         'and stops exactly when a pass leaves the count unchanged (merge_loop_exit); exact correspondence with the real merge_lines and the '
         'real loop (returned extents / heights, number of passes) on horizontal integer baselines, where the pairwise test is exact. '
         'A third genuine defect found by this correspondence is fixed (clipping returned the baseline REVERSED).',
    note='Trusted: shapely; float32 casts of coordinates < 2^24; the de-skew rotation inside merge_lines (angle 0 on the generated lines).',
    technique='Lean 4 proof (string injectivity, fold invariants, termination of the merge loop by a decreasing count) with shapely as a parameter + geometry oracle (partial)',
    ref='§5-C11')
REG['C07'] = dict(
    text='Lean 4 theorems over a model of process_lines batching: the processing order is a permutation (stable, descending '
         'width); the batches partition it (no empty batch, every line in exactly one batch), hence every input position gets '
         'exactly one result and it is the network output for that line (given locality); the widest line determines the tensor '
         'width unless cropped to the engine maximum; a batch of more than one line stays within the 480*batch_size column budget at the 32-aligned width of each of its lines; frame window = image of the un-padded columns; sparse storage keeps exactly '
         'the logits with posterior >= threshold. Correspondence: exact batch composition/padded widths/windows against the real '
         'process_lines with a recording run_ocr; oracle on the real PytorchEngineLineOCR with a TorchScript stub: each line\'s '
         'transcription/window/logits equal those of the line processed alone, for any order, batch mates and batch size; the glue '
         'PageOCR.process_page puts result i onto line i of the page (regions, empty regions, zero-width crops).',
    note='Trusted: the network is local (the property\'s own assumption; true for the stub); float conv results compared with atol '
         '1e-4; translator reads pad=32, 480*batch_size, 1e-4, sub=4. Over-long lines: truncation depends on the budget 480*batch_size.',
    technique='Lean 4 proof (permutation + chunking + scatter = identity) + differential correspondence + stub-network oracle',
    ref='§5-C07')
REG['C12'] = dict(
    text='Lean 4 theorems over a fuel-bounded functional model of the smart sorter (couple/grow/decouple/divide) and of the naive '
         'sorter: the smart sorter always terminates (fuel 2n+2 is never exhausted; the result is independent of the fuel above '
         'n+2) and returns a permutation of the input boxes for every set of boxes and every intersection parameter; coupling '
         'partitions its input; the naive order is a permutation for every DBSCAN labelling 0..k-1; the de-skew rotation there and back is '
         'the identity on every geometry and an isometry in between (exact arithmetic, c^2+s^2=1). Exact correspondence of the '
         'region ORDER with the real sorters on integer layouts (grids, overlapping in both axes, identical, degenerate boxes); '
         'slanted pages and arbitrary outlines (L-shapes, zero-width spurs, self-overlapping rings, bow-ties): oracle (permutation, '
         'content intact, polygons equal vertex by vertex as shapes up to 1e-6).',
    note='Trusted: shapely rotation (de-skew) and DBSCAN are parameters; NumPy x/0 semantics. Observation: the configured '
         'FakeIntersectionParameter is ignored by the code (intersect() always uses its default 0.1).',
    technique='Lean 4 proof (termination by fuel bound; permutation invariants) + differential correspondence',
    ref='§5-C12')
REG['C08'] = dict(
    text='Lean 4 theorems over the PageDecoder state machine (decode_line with confident-line shortcut, re-priming from the last line, '
         'LM state carry-over; the decoder itself a pure function by C02/C03): the output of a page is independent of the state the '
         'instance is in, hence of ANY processing history (subsets, orders, repetitions); a run is page-wise; processing a page twice '
         'gives identical output, also when the page object carries the results of the first pass (reprocess_fixpoint: the confident-line test '
         'reads the logits only); any partition of the pages among fresh workers gives the sequential result. Whether process_page '
         'resets last_line is REGENERATED from the source each run. Correspondence: the real PageDecoder driven with a symbolic '
         'decoder/LM whose outputs encode their inputs vs the Lean model (exact); oracle with the real prefix decoder + toy LM and with the REAL '
         'LMWrapper/HiddenState around tiny seeded torch LMs (plain and tuple state; beam 1/2/4): page after a history = page alone = page twice; '
         'the whole stage PageParser.process_page (decoder + update_confidences) on real TextLine objects twice on the same page object and on a '
         'page re-loaded with its stored results, thresholds between the two confidence measures of a line; '
         'parse_folder --process-count 1 vs 2 on the model-free stage.',
    note='Trusted: multiprocessing.Pool.starmap (each task once, results in order); aliasing inside torch tensors of a real LM is only exercised (oracle), not modelled; the decoder '
         'call is stateless (proved for the model decoder in C02/C03, exercised on the real one).',
    technique='Lean 4 proof (state-independence of processPage) over a model with a generated flag + differential correspondence',
    ref='§5-C08')
REG['C09'] = dict(
    text='Lean 4 theorems over a model of _gen_logits / load_logits (one insertion-ordered dict with the two reserved keys): for '
         'distinct, non-reserved line ids loading a saved page restores for every line exactly the saved logits, characters and '
         'frame window whatever the target held; lines absent from the file are untouched (partial files, both directions); a '
         'missing component is reported without the flag; dense reconstruction returns stored logits / the floor (row '
         'normalisation: C16 real-analysis theorems). The two hypotheses are shown necessary by kernel-checked witnesses and are '
         'recorded as known findings on the real code (duplicate ids; ids equal to a reserved key). Exact correspondence through '
         'the real pickle files and bytes; end-to-end rebuild (PAGE XML + logits -> same greedy text and ALTO words) as oracle.',
    note='Trusted: pickle and scipy.sparse round-trip the stored objects; Lean kernel + standard axioms.',
    technique='Lean 4 proof (dict get/set algebra) + differential correspondence through real files',
    ref='§5-C09')
REG['C16'] = dict(
    text='Lean 4 theorems for every ordered field: per-character line confidences (CTC and transformer branch), letter '
         'confidences, the run-wise line confidence, medians and bag posteriors/confidence (C03) are in [0,1] for posteriors in '
         '[0,1]; the CTC computation is defined (every window non-empty) for every strictly increasing in-range alignment with no '
         'bound on the number of frames (the window border (a+1+a\')//2 and the end sentinel max(1000,T) are REGENERATED from the source; '
         'obligations cfg_nextBorder / cfg_sentinel); one-hot windows give exactly 1; the confident-line test is monotone in its threshold. '
         'Over the reals: exp(log_softmax) sums to 1, lies in (0,1], and is invariant under a per-frame constant. Correspondence: '
         'the probabilities the code itself computes are sent as exact dyadics, outputs agree within 1e-12; the confident-line test is '
         'exercised at ALL kinds of thresholds (negative incl. -inf, 0, (0,1), 1, > 1 incl. inf, next to the decisive value). The stored line confidence (get_prob: runs of frames with the same best symbol merged) is never below the decoder\'s smallest '
         'per-frame best posterior (getProb_ge_frame_min); compute_line_confidence is compared with an independent reference from the stored sparse logits.',
    note='Trusted: Lean kernel + 3 standard axioms; NumPy/SciPy exp/log/logsumexp approximate the real functions (D4); medians via '
         'np.quantile linear interpolation. Defect found and fixed: sentinel 1000 broke lines with > 1000 frames.',
    technique='Lean 4 proof (range/definedness lemmas over ordered fields; softmax identities over R) + differential correspondence',
    ref='§5-C16')
REG['C17'] = dict(
    text='Lean 4 theorems over a model of the resume protocol whose configuration (consulted folders, stem matcher, write order, '
         'guarded statistics) is REGENERATED from parse_folder.py on every run: for every batch with distinct recoverable ids, every '
         'subset of output kinds and EVERY sequence of kills between two writes (any length), the final resume leaves exactly the '
         'requested outputs of every page; every page counted as processed after a kill is complete; complete pages are not '
         'processed again (when a consulted kind is requested); a run with nothing to do exits cleanly; ids with dots / extension '
         'substrings are recovered exactly. Four cfg_* obligations are the only places that evaluate the generated constants. '
         'Correspondence: the real main() in-process on a stub pipeline with a kill injected before every file-creating call, all '
         'crash points, sequences of crashes; the model predicts every interrupted write sequence and the final listing (exact). '
         'Known finding: crops-only configuration re-processes complete pages.',
    note='Trusted: a completed write is atomic and durable, kills happen between writes (as the property states); the OS; the ast '
         'translator (validated by the exact crash-enumeration correspondence); timestamps ignored when comparing contents.',
    technique='Lean 4 proof (prefix invariant over crash histories) over a generated configuration + crash-enumeration correspondence',
    ref='§5-C17')
REG['C18'] = dict(
    text=PARTIAL + 'Lean 4 theorems for the rotated-analysis clause: for every H, W >= 1 (non-square included), every rotation and '
         'every pixel of the rotated image, rotate_layout (called with the ROTATED image shape, as detect does) maps the pixel\'s '
         'coordinates to within one pixel per axis of the original pixel (exactly +1 on the flipped axis: the bound is tight); np.rot90 '
         'is modelled as an index bijection inside the image; the map is an isometry on displacements (baselines, outlines and region '
         'polygons keep their shape); rot=0 is the identity; order_lines_vertical (three separate sorts with the same jittered keys) keeps '
         'baseline, heights and outline of a line together, only permutes the lines, sorts them by jittered vertical position, strictly '
         'when the keys are distinct (so Python never compares the NumPy payloads). Exact correspondence of the real '
         'order_lines_vertical (jitter stream under control) with the model; exact correspondence with the real np.rot90 (index-stamped images) and the '
         'real rotate_layout for all rotations on non-square shapes. NOT decided by proof: the ridge-decoding clause (scipy.ndimage '
         'smoothing, non-maxima suppression, labelling, percentiles) - judged by an oracle on LayoutEngine.parse over synthetic maps '
         '(one line per ridge, end points / vertical position within a few map pixels x ds, heights = map x ds) and on the whole '
         'LayoutEngine.detect behind a stub network (columns whose ridges start on the same row, rot 0..3 on non-square pages: every '
         'returned line carries the heights and outline of ITS ridge, in original-image coordinates).',
    note='Trusted: NumPy rot90 semantics (exercised exhaustively on small shapes); scipy.ndimage; the stub engine object bypasses the '
         'network (maps are synthetic).',
    technique='Lean 4 proof (index arithmetic, omega) + differential correspondence + ridge oracle (partial)',
    ref='§5-C18')
REG['C19'] = dict(
    text='Lean 4 theorems over the merge fold of merge_ocr_results.py: if some engine has positive mean confidence the merged '
         'line takes transcription, logits, character table AND recorded confidence from the same engine, the first one attaining '
         'the maximum; otherwise engine 0 is kept; ids and geometry always those of the first layout; self-merge changes nothing; '
         'CHAINED merging (a merged layout merged again with further engines, or with itself) equals merging all engines at once. '
         'Correspondence on the real merge_layouts with in-memory layouts (different charsets, empty transcriptions, the 0.5 '
         'fallback, lines arriving with a stored confidence), confidences sent as exact dyadics; the confidences themselves are checked '
         'against an independent reference of get_line_confidence (aligned label minus best competitor, label and text neighbours excused).',
    note='Trusted: Lean kernel + standard axioms; the per-engine mean character confidence is an input of the model (computed by '
         'the real get_confidences; its range is C16).',
    technique='Lean 4 proof (fold invariant: first strict maximum) + differential correspondence',
    ref='§5-C19')
REG['C20'] = dict(
    text=PARTIAL + 'Lean 4 theorems over TWO models of the transformer decoder. (1) Functional model (Model/Decoder): DecoderLayer.infer / '
         'Decoder.infer / transcribe_batch\'s step loop with their persistent state (self-attention K/V cache, cross-attention K/V, '
         'memory_tgt) over ABSTRACT layer functions - for EVERY choice of projections, attention, norms and feed-forward functions, every '
         'number of layers, every fed symbol sequence and EVERY state left behind by earlier lines (stale caches, torch.empty garbage): '
         'the scores of every cached step = those of recomputing every step = position t of the full masked (teacher-forced) pass '
         '(cached_eq_full, uncached_eq_full, cached_eq_uncached), the masked pass is causal (full_prefix) and decoding after any history '
         '= decoding with fresh objects (history_independent). (2) Cache protocol with tags (Model/KVCache): for EVERY history of '
         'batches with equal or different batch sizes and source lengths, '
         'every slot read at step t of batch n was written in batch n at a step <= t and the cross-attention K/V are those of batch n '
         '(never garbage, never a stale value); the view/transpose index algebra addresses the same cell and is lane preserving; the '
         'decoding loop stops within W/4 + 2 network evaluations for every network; the post-processed transcription contains no '
         'boundary / ignore symbol. Tie to the real code without source hooks: the driver prints the functional model\'s computation '
         'as TERMS over free function symbols; the harness evaluates these terms with the real modules\' weights and kernels and compares '
         'the values with the real Decoder.infer (cached, uncached, after a history of other batches) and the real masked '
         'TransformerDecoder.forward on forced symbol sequences (incl. boundary / ignore symbols mid-sequence); tensor snapshots around '
         'every Decoder.infer call give '
         'the real write sets and re-allocations (compared with the model), and every slot the model calls invalid is poisoned with '
         'NaN before each step - the outputs stay NaN-free and bit-identical; postprocess_decoded against the model and an independent '
         'oracle (symbols, prefix, batch independence); the REAL transcribe_batch around a SCRIPTED network (line b emits script[b][step]) '
         'corresponds exactly to the Lean transcribeLoop + postprocess (transcriptions, number of network evaluations), with an '
         'independent per-line oracle and a greedy reference through the masked forward pass for random-weight models. '
         'NOT decided by proof: that the float32 kernels evaluate the same term to the same '
         'number on every route, and lane-wise action of the batched kernels (per-line independence): checked differentially, 1e-4.',
    note='Trusted: PyTorch kernels act lane-wise and are deterministic functions of their inputs; random-weight small models stand in for '
         'trained ones; the VGG front-end is replaced by a conv stub (it downloads weights); the term evaluator (harness) interprets the '
         'symbols kv/sa/pm/ca/add/n1-3/ff with the real weights.',
    technique='Lean 4 proof (refinement: cached/uncached step machine = masked pass, by a per-layer invariant over steps; cache-freshness '
              'invariant over batch histories) + term-evaluation and snapshot/NaN-poisoning correspondence (partial)',
    ref='§5-C20, §10.9')
REG.update(REG13)
NOT_YET = {}
