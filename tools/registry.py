"""Per-property registration data; tools/gen_manifest.py turns it into MANIFEST.json."""

PARTIAL = 'PARTIAL: '

REG_PENDING = {
 'C13': dict(
    text='Lean 4 theorems over a model of sequence_alignment.py: the rolling-row DP equals the minimum cost over ALL '
         'explicit alignments (every pair of sequences, every cost triple, no size bound); returned alignments project to '
         'both inputs and have that cost; stats sum to the distance; aggregation is addition. Model tied to the code by an '
         'exact correspondence check (exhaustive small scope + random) and an independent oracle on the real code.',
    note='Trusted: Lean kernel + propext/Classical.choice/Quot.sound; NumPy exact integer arithmetic; the correspondence '
         'harness and compiled driver. Substring variants: see DESIGN §5-C13 for what is proved vs. checked by oracle.',
    technique='Lean 4 proof (DP invariant = min over alignments) + differential correspondence model<->code',
    ref='§5-C13'),
}

REG = {}
NOT_YET = {}
