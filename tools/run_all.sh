#!/bin/bash
# usage: tools/run_all.sh <tier> <seed>...   — runs every claimed check, prints one line per check
cd "$(dirname "$0")/.."
tier=$1; shift
for seed in "$@"; do
  for c in $(python3 -c "import json; print(' '.join(x['property_id'] for x in json.load(open('MANIFEST.json'))['checks']))"); do
    start=$(date +%s)
    out=$(VERIF_SEED=$seed timeout 3000 ./check $c $tier 2>&1 | grep -E "^(OK|VIOLATION|KNOWN-FINDING|INFRASTRUCTURE)" | cut -c1-160 | tr '\n' '|')
    echo "seed=$seed $c rc=$? $(( $(date +%s) - start ))s $out"
  done
done
