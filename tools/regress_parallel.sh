#!/bin/bash
# usage: tools/regress_parallel.sh [lanes] [name-pattern] [tier]   — like regress.sh (every seeded mutant must be reported, every benign refactoring must
# pass, quick tier) but in parallel lanes: each lane has its own scratch worktree of /repo's HEAD and its own copy of /verif (with the
# built lake project) under /tmp/regress_lane_<k>; the checks are pointed at the lane's worktree (VERIF_REPO + PYTHONPATH).  /repo
# itself is not touched.  Everything under /tmp/regress_lane_* is removed at the end.
lanes=${1:-6}
pattern=${2:-.}
tier=${3:-quick}
cd /verif
ls seeded | grep -E "$pattern" | sed 's/^/seeded /' > /tmp/regress_items.txt
ls benign | grep -E "$pattern" | sed 's/^/benign /' >> /tmp/regress_items.txt
rm -f /tmp/regress_out_*.log
for k in $(seq 1 $lanes); do
  (
    L=/tmp/regress_lane_$k
    rm -rf $L; mkdir -p $L
    git -C /repo worktree add -q --detach $L/repo HEAD
    rsync -a --exclude replays --exclude .git /verif/ $L/verif/
    awk -v k=$k -v n=$lanes 'NR % n == k % n' /tmp/regress_items.txt | while read kind name; do
      c=${name%%-*}
      git -C $L/repo apply /verif/$kind/$name/patch.diff 2>/dev/null || { echo "$name: PATCH DOES NOT APPLY"; continue; }
      r=$(cd $L/verif && VERIF_REPO=$L/repo PYTHONPATH=$L/repo timeout 2400 ./check $c $tier 2>&1 | grep -E "^(OK|VIOLATION|INFRA)" | head -1 | cut -c1-100)
      git -C $L/repo checkout -- . ; git -C $L/repo clean -fdq
      if [ $kind = seeded ]; then
        case "$r" in VIOLATION*) echo "$name: detected ($r)";; *) echo "$name: MISSED ($r)";; esac
      else
        case "$r" in OK*) echo "$name: passes";; *) echo "$name: FALSE ALARM ($r)";; esac
      fi
    done > /tmp/regress_out_$k.log 2>&1
    git -C /repo worktree remove --force $L/repo
    rm -rf $L
  ) &
done
wait
cat /tmp/regress_out_*.log | sort
echo "regress: missed=$(cat /tmp/regress_out_*.log | grep -c MISSED) false_alarms=$(cat /tmp/regress_out_*.log | grep -c 'FALSE ALARM') not_applicable=$(cat /tmp/regress_out_*.log | grep -c 'DOES NOT APPLY') total=$(cat /tmp/regress_out_*.log | wc -l)"
