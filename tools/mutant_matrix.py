#!/usr/bin/env python3
"""Print the seeded-mutant catching matrix (markdown) from seeded/*/meta.json; `--write` replaces the block in DESIGN.md."""
import glob
import json
import os
import re
import sys

ROOT = os.path.dirname(os.path.dirname(os.path.abspath(__file__)))


def cell(x, n=230):
    x = re.sub(r'\s+', ' ', str(x)).replace('|', '\\|')
    return x if len(x) <= n else x[:n - 1] + '…'


def first_sentence(x):
    m = re.match(r'(.{40,300}?[.;])\s', x + ' ')
    return m.group(1) if m else x[:300]


rows = ['| mutant | code site | what it breaks (needs) | caught by | strengthened because of it |',
        '|--------|-----------|------------------------|-----------|----------------------------|']
for d in sorted(glob.glob(os.path.join(ROOT, 'seeded', '*'))):
    mp = os.path.join(d, 'meta.json')
    if not os.path.exists(mp):
        continue
    m = json.load(open(mp))
    det = m.get('detected_by', {})
    tier = det.get('tier', '?')
    strengthened = det.get('strengthened', '')
    if not strengthened and 'after strengthening' in tier:
        strengthened = tier.split('after strengthening', 1)[1].strip(' :()')
        tier = tier.split('(', 1)[0].strip()
    rows.append('| %s | %s | %s — needs: %s | `./check %s %s`: %s | %s |' % (
        os.path.basename(d), cell(', '.join(os.path.basename(f) for f in m.get('files', [])), 60),
        cell(first_sentence(m.get('summary', '')), 260), cell(first_sentence(m.get('needs', '')), 200),
        det.get('check', m.get('property')), cell(tier, 40), cell(det.get('how', ''), 200), cell(strengthened or '–', 300)))
table = '\n'.join(rows)
if '--write' in sys.argv:
    p = os.path.join(ROOT, 'DESIGN.md')
    s = open(p).read()
    a, b = '<!-- MUTANT-MATRIX-BEGIN -->', '<!-- MUTANT-MATRIX-END -->'
    assert a in s and b in s
    s = s[:s.index(a) + len(a)] + '\n' + table + '\n' + s[s.index(b):]
    open(p, 'w').write(s)
else:
    print(table)
