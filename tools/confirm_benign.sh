#!/bin/bash
# usage: tools/confirm_benign.sh <worktree> <name>  — store BENIGN/* under benign/<name>/ and confirm in a fresh scratch worktree of /repo's HEAD:
# the patch applies, equiv.py exits 0 on the refactored tree, the test suite is unchanged.  /repo itself is not touched.
wt=$1; name=$2
cd /verif
mkdir -p benign/$name
cp $wt/BENIGN/patch.diff $wt/BENIGN/equiv.py $wt/BENIGN/meta.json benign/$name/ 2>/dev/null
scratch=/tmp/bencheck_$name
rm -rf $scratch; git -C /repo worktree add -q --detach $scratch HEAD
mkdir -p $scratch/BENIGN && cp benign/$name/equiv.py $scratch/BENIGN/
( cd $scratch && git apply /verif/benign/$name/patch.diff && /venv/bin/python BENIGN/equiv.py > /tmp/equiv_$name.log 2>&1; echo "$name equiv on refactored: exit $?"; /venv/bin/python -m pytest -q -p no:cacheprovider test 2>&1 | tail -1 )
git -C /repo worktree remove --force $scratch
