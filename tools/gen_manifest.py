#!/usr/bin/env python3
import json, os, sys
sys.path.insert(0, os.path.dirname(os.path.abspath(__file__)))
from registry import REG, NOT_YET
V = os.path.dirname(os.path.dirname(os.path.abspath(__file__)))
props = [json.loads(l) for l in open(os.path.join(V, 'properties.jsonl'))]
m = json.load(open(os.path.join(V, 'MANIFEST.json')))
m['checks'] = []
m['not_applicable'] = []
for p in props:
    pid = p['id']
    if pid in REG:
        r = REG[pid]
        m['checks'].append({
            'property_id': pid,
            'quick_cmd': './check %s quick' % pid,
            'thorough_cmd': './check %s thorough' % pid,
            'evidence_file': 'evidence/%s.json' % pid,
            'replay_cmd_template': './check %s quick --replay {path}' % pid,
            'engine': 'lean4+correspondence',
            'level_claimed': {'category': 'proof', 'text': r['text'], 'design_ref': r['ref']},
            'level_note': r['note'],
            'technique': r['technique'],
        })
    else:
        m['not_applicable'].append({'property_id': pid, 'reason': NOT_YET.get(pid, 'check not built yet in this round (planned: DESIGN.md §5-%s); not claimed until its model, theorems and correspondence run' % pid)})
m['engines'][0]['serves_properties'] = sorted(REG)
json.dump(m, open(os.path.join(V, 'MANIFEST.json'), 'w'), indent=1)
print('claimed', sorted(REG), 'not claimed', len(m['not_applicable']))
